"""C20  Never crash: a result or an exception — the exception discipline.

Decides, on the call-graph closure of the parse / build / open entry points: everything thrown is a
std::exception (C20.throw); nothing terminates the process except the two exits the caller configured
(C20.term); no exception can escape a noexcept function or a destructor (C20.noexcept); the wrapping
catch sites are complete for std::exception (C20.wrap).  search-and-replace loops restart beyond the
inserted text (C20.search).  NOT decided: out-of-bounds reads, iterator arithmetic past the end, termination of loops in general,
undefined behaviour - these need sanitizers and fuzzing.
"""
import re

from verif import core
from verif.tree import walk, walk_fn, show, stmt_list, meth, strip

LEVEL = "other"

ENTRY = [
    r"^Opm::Parser::(parseFile|parseString|parse|parseDeck|parseDeckString)$",
    r"^Opm::EclipseState::EclipseState$", r"^Opm::Schedule::Schedule$", r"^Opm::SummaryConfig::SummaryConfig$",
    r"^Opm::EclIO::(EclFile|ERst|ESmry|ExtESmry|EGrid|ERft|EInit|ERsm)::\1$",
    r"^Opm::EclIO::(EclFile|ERst|ESmry|ExtESmry|EGrid|ERft)::(loadData|get|getRestartData|getRft|get_at_rstep|make_esmry_file)$",
]
TERMINATORS = ("exit", "abort", "_Exit", "quick_exit", "terminate", "_exit")
TERM_ALLOWED = {
    "Opm::ParseContext::handleError": "InputErrorAction::EXIT1: an exit the caller selected in the ParseContext",
    "Opm::ErrorGuard::terminate": "ErrorGuard::terminate(): called explicitly by the application after dumping the collected errors",
    "Opm::ErrorGuard::~ErrorGuard": "destructor of a guard that still holds errors: documented termination the application opted into",
}


HEADER_CARRIERS = ["opm/input/eclipse/Parser/Parser.cpp", "opm/input/eclipse/Schedule/Schedule.cpp", "opm/input/eclipse/EclipseState/EclipseState.cpp",
                   "opm/output/eclipse/Summary.cpp", "opm/output/eclipse/RestartIO.cpp", "opm/input/eclipse/Deck/Deck.cpp", "opm/io/eclipse/ESmry.cpp",
                   "opm/input/eclipse/EclipseState/SummaryConfig/SummaryConfig.cpp", "opm/input/eclipse/Schedule/KeywordHandlers.cpp",
                   "opm/output/eclipse/LoadRestart.cpp", "opm/io/eclipse/ERst.cpp", "opm/io/eclipse/EGrid.cpp", "opm/input/eclipse/EclipseState/Grid/FieldProps.cpp"]


def show_line(f, l):
    """Position of a report relative to its function (stable under edits elsewhere in the file)."""
    return "+%d" % (l - f["l"])


def run(chk):
    units = core.library_units()
    fx = chk.facts(units)
    # inline functions defined in headers (accessors of the raw-record / deck / state classes) take part in the closure too:
    # they are parsed through a handful of units that between them include the parser, deck, state, schedule and I/O headers
    hx = chk.facts(HEADER_CARRIERS, files_re=r"^/repo/opm/.*\.(hpp|h)$")
    have = {(f["q"], f["file"], f["l"]) for f in fx.fns}
    for f in hx.fns:
        if (f["q"], f["file"], f["l"]) not in have:
            fx.fns.append(f)
    fx._fn_index = None
    by_q = {}
    for f in fx.fns:
        by_q.setdefault(f["q"], []).append(f)
    virt_by_name = {}
    for f in fx.fns:
        if f.get("virt"):
            virt_by_name.setdefault(f["n"], []).append(f["q"])
    ent = [re.compile(p) for p in ENTRY]
    roots = sorted({q for q in by_q if any(r.match(q) for r in ent)})
    r_ent = chk.rule("C20.entry", "entry points (parser, state constructors, result-file readers) found and call-graph closure built over all library units", floor=15)
    for q in roots:
        chk.instance(r_ent, q, sample=q)
    from verif.callgraph import hidden_constructors
    hidden = hidden_constructors(fx.fns)
    closure = set()
    work = list(roots)
    while work:
        q = work.pop()
        if q in closure:
            continue
        closure.add(q)
        for f in by_q.get(q, []):
            for c in list(f.get("callees", [])) + sorted(hidden.get(q, ())):
                if c not in closure:
                    if c in by_q:
                        work.append(c)
                    # virtual dispatch: any override of a virtual method of that name may run
                    short = c.split("::")[-1]
                    for v in virt_by_name.get(short, []):
                        if v not in closure:
                            work.append(v)
    chk.extra["closure_functions"] = len(closure)
    chk.extra["library_functions"] = len(by_q)
    if len(closure) < 1500:
        raise core.AnalysisBroken("call-graph closure of the entry points has only %d functions" % len(closure))

    # ---- C20.throw
    r_thr = chk.rule("C20.throw", "every throw expression reachable from the entry points throws a type derived from std::exception (or rethrows)", floor=600)
    outside = []
    for f in fx.fns:
        for t in f.get("throws", []):
            inside = f["q"] in closure
            if t.get("rethrow"):
                if inside:
                    chk.instance(r_thr, "%s@%s" % (f["q"], t["l"]), nontrivial=False)
                continue
            ok = t.get("std") or t.get("dep")
            if inside:
                chk.instance(r_thr, "%s@%s" % (f["q"], t["l"]), sample=dict(function=f["q"], type=t.get("t"), std=t.get("std")))
                if not ok:
                    chk.violation(r_thr, "%s:%s" % (f["q"], t.get("t")), "%s throws `%s`, which is not derived from std::exception: a caller catching std::exception is bypassed and the process terminates" % (f["q"], t.get("t")), t.get("file") or f["file"], t["l"])
            elif not ok:
                outside.append("%s throws %s (%s:%s)" % (f["q"], t.get("t"), (t.get("file") or f["file"]).replace(core.REPO + "/", ""), t["l"]))
    for o in outside[:20]:
        chk.info(r_thr, "outside the closure of the entry points: " + o)

    # catch (...) handlers must not replace the exception by a non-std one (covered by C20.throw) nor swallow into termination
    # ---- C20.term
    r_term = chk.rule("C20.term", "no call to exit/abort/terminate is reachable from the entry points except the two exits the caller configured", floor=2)
    for f in fx.fns:
        terms = [c for c in f.get("callees", []) if c.split("::")[-1] in TERMINATORS and (c.count("::") == 0 or c.startswith("std::"))]
        if not terms:
            continue
        inside = f["q"] in closure
        chk.instance(r_term, f["q"], sample=dict(function=f["q"], calls=terms, reachable_from_entry_points=inside, allowed=TERM_ALLOWED.get(f["q"])))
        if inside and f["q"] not in TERM_ALLOWED:
            chk.violation(r_term, f["q"], "%s calls %s and is reachable from the parse/build/open entry points: malformed input can terminate the process instead of raising" % (f["q"], ", ".join(terms)), f["file"], f["l"])
        elif not inside and f["q"] not in TERM_ALLOWED:
            chk.info(r_term, "%s calls %s (not reachable from the entry points: output path)" % (f["q"], ", ".join(terms)))
    for q in TERM_ALLOWED:
        if q not in by_q:
            chk.info(r_term, "allowed terminator %s no longer exists" % q)

    # ---- C20.noexcept
    r_ne = chk.rule("C20.noexcept", "noexcept functions and destructors in the closure contain no throw and call no repository function that throws directly (outside a try block)", floor=20)
    throwers = {q for q, fs in by_q.items() if any(any(not t.get("rethrow") for t in f.get("throws", [])) for f in fs)}
    for f in fx.fns:
        if not (f.get("noexcept") or f.get("dtor")) or not f.get("body"):
            continue
        if f["q"] not in closure and not f.get("dtor"):
            continue
        key = "%s@%s" % (f["q"], f["l"])
        direct = [t for t in f.get("throws", []) if not t.get("rethrow")]
        has_try = any(n["k"] == "Try" for n in walk_fn(f))
        calls = [c for c in f.get("callees", []) if c in throwers and c in by_q and not all(x.get("noexcept") for x in by_q[c])]
        chk.instance(r_ne, key, nontrivial=bool(direct or calls), sample=dict(function=f["q"], kind="destructor" if f.get("dtor") else "noexcept", throws=len(direct), calls_throwing=calls[:3]))
        if has_try:
            continue
        if direct:
            chk.violation(r_ne, key + ":throw", "%s is %s but contains `throw %s`: std::terminate is called instead of propagating the error" % (f["q"], "a destructor" if f.get("dtor") else "noexcept", direct[0].get("t")), f["file"], direct[0]["l"])
        if calls and f.get("noexcept") and not f.get("dtor"):
            chk.violation(r_ne, key + ":call", "%s is noexcept but calls %s, which throws" % (f["q"], ", ".join(calls[:3])), f["file"], f["l"])
        # standard-library calls whose contract is to throw on bad arguments (the data here is input-dependent)
        if f.get("noexcept") and not f.get("dtor"):
            stdthrow = []
            for n in walk_fn(f):
                if n["k"] in ("MCall", "Call"):
                    fq = n.get("fn") or ""
                    m_ = n.get("m") or fq.split("::")[-1]
                    cls_ = n.get("cls") or ""
                    if (m_ == "at" and cls_.startswith(("std::vector", "std::map", "std::unordered_map", "std::array", "std::deque", "std::basic_string", "std::basic_string_view"))) \
                            or (m_ == "value" and cls_.startswith("std::optional")) \
                            or (m_ in ("substr", "erase", "insert", "replace", "compare") and cls_.startswith(("std::basic_string", "std::basic_string_view")) and n.get("a")) \
                            or re.fullmatch(r"std::(stoi|stol|stoll|stoul|stoull|stof|stod|stold|any_cast|get)(<.*)?", fq.split("(")[0]) and not fq.startswith("std::get<") \
                            or (fq.startswith("std::get") and any("variant" in (p_ or "") for p_ in n.get("pt") or [])):
                        stdthrow.append("%s::%s" % (cls_ or "std", m_))
            if stdthrow:
                chk.instance(r_ne, key + ":std", sample=dict(function=f["q"], throwing_std_calls=stdthrow[:4]))
                chk.violation(r_ne, key + ":std", "%s is noexcept but calls %s, which throws on an out-of-range / malformed argument: with input that provokes it the exception cannot leave the function and std::terminate ends the process instead of the caller receiving a std::exception" % (f["q"], ", ".join(sorted(set(stdthrow))[:3])), f["file"], f["l"])

    # ---- C20.wrap
    r_wrap = chk.rule("C20.wrap", "the wrapping sites convert every std::exception into the documented error type and rethrow their own", floor=3)
    sites = [("Opm::(anonymous namespace)::parseState", "Parser.cpp"), ("Opm::KeywordHandlers::handleKeyword", "KeywordHandlers.cpp"), ("Opm::Schedule::Schedule", "Schedule.cpp")]
    for q, file_ in sites:
        fs = [f for f in by_q.get(q, []) if f["file"].endswith(file_) and any(n["k"] == "Try" for n in walk_fn(f))]
        if not fs:
            fs = [f for f in fx.fns if f["n"] == q.split("::")[-1] and f["file"].endswith(file_) and any(n["k"] == "Try" for n in walk_fn(f))]
        if not fs:
            raise core.AnalysisBroken("wrapping site %s not found" % q)
        f = fs[0]
        trys = [n for n in walk_fn(f) if n["k"] == "Try"]
        for tr in trys:
            hs = tr["handlers"]
            types = [re.sub(r"^const\s+|\s*&$", "", h["t"]).replace("Opm::", "") for h in hs]
            covers_std = any(t in ("std::exception", "...") for t in types)
            outcome = []
            for h in hs:
                thr = [x for x in walk(h["body"]) if x["k"] == "Throw"]
                outcome.append("rethrow" if any(x.get("rethrow") for x in thr) else ("throw " + (thr[0].get("t") or "?")) if thr else ("handleError" if "handleError" in show(h["body"]) else "swallow"))
            key = "%s@%s" % (q, tr["l"])
            chk.instance(r_wrap, key, sample=dict(site=q, handlers=list(zip(types, outcome))))
            if not covers_std:
                chk.violation(r_wrap, key + ":cover", "%s: the try block has handlers for %s only: other std::exception types escape unwrapped (without file/line context)" % (q, types), f["file"], tr["l"])
            for t, o in zip(types, outcome):
                if o.startswith("throw ") and not any(s_ in o for s_ in ("OpmInputError", "std::", "runtime_error", "logic_error", "invalid_argument")):
                    chk.violation(r_wrap, key + ":type", "%s: handler for %s throws %s" % (q, t, o), f["file"], tr["l"])
    # ---- C20.search: search-and-replace loops make progress (a termination argument for the one loop shape that edits what it searches)
    r_sr = chk.rule("C20.search", "a loop that searches a string until npos and edits the string in its body restarts the search beyond the inserted text, unless the inserted text is a literal that cannot contain the search literal", floor=2)
    for f in fx.fns:
        if not f.get("body"):
            continue
        for lp in walk_fn(f):
            if lp["k"] not in ("While", "Do", "For") or lp.get("cond") is None or "npos" not in show(lp["cond"]):
                continue
            scope = [lp["cond"], lp["body"]]
            finds, edits = [], []
            for part in scope:
                for x in walk(part):
                    m, obj = meth(x)
                    if m in ("find", "find_first_of", "find_first_not_of", "rfind") and obj is not None:
                        finds.append((x, obj))
                    elif m in ("replace", "insert") and obj is not None:
                        edits.append((x, obj))
            if not finds and not edits:
                continue
            key = "%s@%d" % (f["q"], lp["l"])
            inside = f["q"] in closure
            if not edits:
                chk.instance(r_sr, key, nontrivial=False, sample=dict(function=f["q"], loop="search only", reachable=inside))
                continue
            ok, why = True, []
            for e, eobj in edits:
                args = e.get("a", [])
                repl = args[-1] if args else None
                rlit = [x["v"] for x in walk(repl) if x["k"] in ("Str",)] if repl is not None else []
                rname = strip(repl).get("n") if repl is not None and strip(repl)["k"] == "Ref" else None
                for fd, fobj in finds:
                    if show(strip(fobj)) != show(strip(eobj)):
                        continue
                    fa = fd.get("a", [])
                    needle = fa[0] if fa else None
                    nlit = [x["v"] for x in walk(needle) if x["k"] == "Str"] if needle is not None else []
                    start = fa[1] if len(fa) > 1 else None
                    if rlit and nlit and all(nl not in rl for nl in nlit for rl in rlit):
                        why.append("the inserted literal %r cannot contain the search literal %r" % (rlit[0], nlit[0]))
                        continue
                    adv = False
                    if start is not None:
                        for b in walk(start):
                            if b["k"] == "Bin" and b.get("op") == "+":
                                for side in b["c"]:
                                    m2, o2 = meth(strip(side))
                                    if m2 in ("size", "length") and o2 is not None and (rname is None or strip(o2).get("n") == rname):
                                        adv = True
                    if adv:
                        why.append("search restarts at `%s`" % show(start)[:60])
                    else:
                        ok = False
                        why.append("search restarts at `%s`, not beyond the text just inserted (`%s`)" % (show(start)[:60] if start is not None else "the beginning", show(repl)[:40] if repl is not None else "?"))
            chk.instance(r_sr, key, sample=dict(function=f["q"], reachable_from_entry_points=inside, argument=why))
            if not ok:
                chk.violation(r_sr, key, "%s: %s - when the replacement contains the search string the loop never ends (%s)" % (f["q"], "; ".join(w for w in why if "not beyond" in w), "reachable from the parse entry points" if inside else "library utility"), f["file"], lp["l"])
    # ---- C20.cstr: C functions that read up to a NUL terminator
    r_cs = chk.rule("C20.cstr", "a C library function that reads a NUL-terminated string (strto*, ato*, strlen, strcmp, sscanf) never gets the data() of a std::vector<char> or of a std::string_view, which carry no terminator", floor=6)
    CSTR = ("strtof", "strtod", "strtold", "strtol", "strtoul", "strtoll", "strtoull", "atof", "atoi", "atol", "strlen", "strcmp", "strncmp", "strcpy", "strcat", "sscanf", "strchr", "strstr")
    for f in fx.fns:
        if not f.get("body") or f["q"] not in closure:
            continue
        for n in walk_fn(f):
            if n["k"] != "Call" or (n.get("fn") or "").replace("std::", "") not in CSTR or not n.get("a"):
                continue
            for ai, a in enumerate(n["a"][:2]):
                a0 = strip(a)
                t_ = (a0.get("t") or "")
                m_, o_ = meth(a0)
                if not (m_ in ("data", "c_str") and o_ is not None):
                    continue
                ot = (strip(o_).get("t") or "")
                key = "%s:%s@%s:%d" % (f["q"], (n.get("fn") or "").replace("std::", ""), show_line(f, n["l"]), ai)
                unterminated = m_ == "data" and ("vector<char" in ot or "string_view" in ot or "basic_string_view" in ot or "array<char" in ot)
                chk.instance(r_cs, key, sample=dict(function=f["q"], call=(n.get("fn") or ""), argument="%s() of %s" % (m_, ot[:60]), terminated=not unterminated))
                if unterminated:
                    chk.violation(r_cs, key, "%s passes the data() of a %s to %s, which reads until it finds a terminator: the read runs past the end of the buffer" % (f["q"], ot.replace("std::", "")[:40], (n.get("fn") or "")), f["file"], n["l"])

    # ---- C20.rawdata: the raw data vector of a deck item has whatever length the input record gave it
    r_rd = chk.rule("C20.rawdata", "a container taken from DeckItem::getData (its length is decided by the input record) is dereferenced with front()/back()/[k] only in a function that tests its size or emptiness", floor=2)
    for f in fx.fns:
        if not f.get("body") or f["q"] not in closure:
            continue
        srcs = {}
        for n in walk_fn(f):
            if n["k"] == "Decl":
                for v in n["vars"]:
                    i = v.get("init")
                    if i is not None and any((meth(x)[0] or "") == "getData" for x in walk(i)):
                        srcs[v["n"]] = n["l"]
        if not srcs:
            continue
        tested = set()
        for n in walk_fn(f):
            m, o = meth(n)
            if m in ("empty", "size") and o is not None and strip(o)["k"] == "Ref" and strip(o)["n"] in srcs:
                tested.add(strip(o)["n"])
        for n in walk_fn(f):
            m, o = meth(n)
            use = None
            if m in ("front", "back") and o is not None and strip(o)["k"] == "Ref" and strip(o)["n"] in srcs:
                use = (strip(o)["n"], m + "()")
            else:
                b_ = i_ = None
                if n["k"] == "Idx":
                    b_, i_ = n["c"]
                elif n["k"] == "OpCall" and n.get("op") == "[]" and len(n.get("a", [])) == 2:
                    b_, i_ = n["a"]
                if b_ is not None and strip(b_)["k"] == "Ref" and strip(b_)["n"] in srcs and strip(i_)["k"] == "Int":
                    use = (strip(b_)["n"], "[%s]" % strip(i_)["v"])
            if use:
                key = "%s:%s.%s@%s" % (f["q"], use[0], use[1], show_line(f, n["l"]))
                chk.instance(r_rd, key, sample=dict(function=f["q"], data=use[0], use=use[1], size_tested=use[0] in tested))
                if use[0] not in tested:
                    chk.violation(r_rd, key, "%s takes `%s` from the raw data of a deck item and calls %s on it without testing that the record supplied a value: an input record that ends early makes this undefined behaviour (crash)" % (f["q"], use[0], use[1]), f["file"], n["l"])

    # ---- C20.cursor: token cursors of the hand-written scanners stay inside their token vector
    from rules import c20_cursor as cc
    # ---- C20.interval: a range validator bounds the UPPER end of the range
    r_iv = chk.rule("C20.interval", "interval validators: a function that rejects (throws on) lo > hi for two of its integer parameters and rejects one of them against an upper limit tests the limit on hi - the end the ordering test leaves as the greater one; testing lo leaves hi unbounded (the callers then index with it)", floor=2)

    def cmp_params(cond, pnames):
        """list of (greater, smaller, strict) facts a TRUE condition states between two parameters / a parameter and something else"""
        out = []
        for c in walk(cond):
            if c["k"] == "Bin" and c.get("op") in (">", ">=", "<", "<="):
                a_, b_ = strip(c["c"][0]), strip(c["c"][1])
                if c["op"] in ("<", "<="):
                    a_, b_ = b_, a_
                out.append((a_, b_, c["op"] in (">", "<")))
        return out
    for f in fx.fns:
        if not f.get("body") or len(f.get("params") or []) < 3:
            continue
        ints = {p_["n"] for p_ in f["params"] if re.fullmatch(r"(const )?(std::)?(size_t|int|unsigned int|unsigned long|long|std::size_t)", p_.get("t") or "")}
        if len(ints) < 3:
            continue
        rejects = []
        for n in stmt_list(f["body"]):
            if n["k"] == "If" and not n.get("else") and any(x["k"] == "Throw" for x in walk(n["then"])) and isinstance(n.get("cond"), dict) and not any(x["k"] == "Bin" and x.get("op") == "&&" for x in walk(n["cond"])):
                rejects += [(g, s_, st, n) for g, s_, st in cmp_params(n["cond"], ints)]
        # rejecting lo > hi (strict) leaves lo <= hi: a range; rejecting x >= limit leaves x < limit: an index bound
        order = [(g["n"], s_["n"]) for g, s_, st, n in rejects if st and g.get("k") == "Ref" and s_.get("k") == "Ref" and g["n"] in ints and s_["n"] in ints and g["n"] != s_["n"]]
        if len(order) != 1:
            continue
        lo, hi = order[0]      # rejected: lo > hi  => afterwards lo <= hi
        limits = [(g, s_, n) for g, s_, st, n in rejects if not st and g.get("k") == "Ref" and g["n"] in (lo, hi) and not (s_.get("k") == "Ref" and s_.get("n") in (lo, hi)) and not (s_.get("k") == "Int")]
        if not limits:
            continue
        for g, s_, n in limits:
            key = "%s:%s" % (f["q"], show(s_)[:30])
            chk.instance(r_iv, key, sample=dict(function=f["q"], rejects="%s > %s" % (lo, hi), limit_tested_on=g["n"], limit=show(s_)[:40]))
            if g["n"] != hi:
                chk.violation(r_iv, key, "%s rejects %s > %s and then tests the upper limit %s on %s, the smaller end: %s stays unbounded, and the callers turn the range into cell indices (out-of-bounds access instead of an exception for input that names a cell outside the grid)" % (f["q"], lo, hi, show(s_)[:40], lo, hi), f["file"], n["l"])

    # ---- C20.divzero: an integer read from the deck is not used as a divisor without a zero test
    r_dz = chk.rule("C20.divzero", "integer division / remainder whose divisor is an integer taken from deck input (DeckItem::get<int>, or an optional<int> configuration value via value()/value_or()) is evaluated only where the divisor is known to be non-zero: behind `d == 0 ||` / `d != 0 &&`, inside a branch that tested it, or after a test that leaves the function when it is zero", floor=1)

    def deck_int(e):
        for x in walk(e):
            m_, o_ = meth(x)
            if m_ in ("value_or", "value") and o_ is not None and "optional<int>" in (strip(o_).get("t") or "").replace("std::", ""):
                return "optional<int>.%s()" % m_
            if x.get("k") in ("MCall", "Call") and (x.get("fn") or "").endswith("DeckItem::get") and (x.get("targs") == ["int"] or (x.get("t") or "") in ("int", "const int &", "const int")):
                return "DeckItem::get<int>"
        return None

    def zero_test(cond, name, want_nonzero_when):
        """does `cond` being `want_nonzero_when` (True/False) imply name != 0 ?  recognises d != 0, d > 0, d >= 1, 0 < d, d (truth) and negations / d == 0, d <= 0, d < 1, !d"""
        c = strip(cond)
        if c.get("k") == "Un" and c.get("op") == "!":
            return zero_test(c["c"][0], name, not want_nonzero_when)
        if c.get("k") == "Ref" and c.get("n") == name:
            return want_nonzero_when is True
        if c.get("k") == "Bin" and c.get("op") in ("==", "!=", ">", ">=", "<", "<="):
            a_, b_ = strip(c["c"][0]), strip(c["c"][1])
            op = c["op"]
            if b_.get("k") == "Ref" and b_.get("n") == name and a_.get("k") == "Int":
                a_, b_ = b_, a_
                op = {"<": ">", ">": "<", "<=": ">=", ">=": "<="}.get(op, op)
            if a_.get("k") == "Ref" and a_.get("n") == name and b_.get("k") == "Int":
                v = b_["v"]
                nonzero_if_true = (op == "!=" and v == 0) or (op == ">" and v >= 0) or (op == ">=" and v >= 1) or (op == "<" and v <= 0) or (op == "<=" and v <= -1)
                nonzero_if_false = (op == "==" and v == 0) or (op == "<=" and v == 0) or (op == "<" and v == 1) or (op == ">=" and v == 0 and False)
                return nonzero_if_true if want_nonzero_when else nonzero_if_false
        if c.get("k") == "Bin" and c.get("op") == "&&" and want_nonzero_when:
            return zero_test(c["c"][0], name, True) or zero_test(c["c"][1], name, True)
        if c.get("k") == "Bin" and c.get("op") == "||" and not want_nonzero_when:
            return zero_test(c["c"][0], name, False) or zero_test(c["c"][1], name, False)
        return False
    for f in fx.fns:
        if not f.get("body"):
            continue
        defs = {}
        for n in walk(f["body"]):
            if n["k"] == "Decl":
                for v in n["vars"]:
                    if isinstance(v.get("init"), dict):
                        defs.setdefault(v["n"], []).append(v["init"])
        parent = None
        for b in walk(f["body"]):
            if b["k"] != "Bin" or b.get("op") not in ("%", "/", "%=", "/="):
                continue
            d = strip(b["c"][1])
            if "double" in (d.get("t") or "") or "float" in (d.get("t") or ""):
                continue
            name = d.get("n") if d.get("k") == "Ref" else None
            src = deck_int(defs[name][0]) if name and len(defs.get(name, [])) == 1 else (deck_int(d) if not name else None)
            if not src:
                continue
            if parent is None:
                parent = {}
                for x in walk(f["body"]):
                    for ch in __import__("verif.tree", fromlist=["children"]).children(x):
                        parent[id(ch)] = x
            key = "%s:%s@%s" % (f["q"], show(b)[:40], show_line(f, b["l"]))
            guarded = None
            if name:
                # walk up: short-circuit operands, enclosing branches, earlier exits in enclosing blocks
                child, p_ = b, parent.get(id(b))
                while p_ is not None and guarded is None:
                    if p_["k"] == "Bin" and p_.get("op") in ("||", "&&") and p_["c"][1] is child or (p_["k"] == "Bin" and p_.get("op") in ("||", "&&") and any(x is child for x in walk(p_["c"][1])) and not any(x is child for x in walk(p_["c"][0]))):
                        if zero_test(p_["c"][0], name, p_["op"] == "&&"):
                            guarded = "right operand of %s after `%s`" % (p_["op"], show(p_["c"][0])[:40])
                    if p_["k"] == "If" and isinstance(p_.get("cond"), dict):
                        in_then = any(x is child for x in walk(p_["then"]))
                        in_else = p_.get("else") is not None and any(x is child for x in walk(p_["else"]))
                        if in_then and zero_test(p_["cond"], name, True):
                            guarded = "inside `if (%s)`" % show(p_["cond"])[:40]
                        if in_else and zero_test(p_["cond"], name, False):
                            guarded = "in the else branch of `if (%s)`" % show(p_["cond"])[:40]
                    if p_["k"] == "Cond":
                        if child is p_["c"][1] and zero_test(p_["c"][0], name, True):
                            guarded = "true arm of ?: on `%s`" % show(p_["c"][0])[:40]
                        if child is p_["c"][2] and zero_test(p_["c"][0], name, False):
                            guarded = "false arm of ?: on `%s`" % show(p_["c"][0])[:40]
                    if p_["k"] == "Block":
                        for s_ in p_["c"]:
                            if s_ is child or any(x is child for x in walk(s_)):
                                break
                            if s_["k"] == "If" and not s_.get("else") and isinstance(s_.get("cond"), dict) and zero_test(s_["cond"], name, False) and any(x["k"] in ("Return", "Throw", "Continue", "Break") for x in stmt_list(s_["then"])[-1:]):
                                guarded = "after `if (%s)` left the block" % show(s_["cond"])[:40]
                    child, p_ = p_, parent.get(id(p_))
            chk.instance(r_dz, key, sample=dict(function=f["q"], expr=show(b)[:80], divisor_from=src, guard=guarded))
            if not guarded:
                chk.violation(r_dz, key, "%s evaluates `%s` where the divisor comes from deck input (%s) and nothing on the way tests it against zero: a deck that sets it to 0 kills the process with SIGFPE instead of raising an exception" % (f["q"], show(b)[:80], src), f["file"], b["l"])

    # ---- C20.include: what is pushed on, and what points into, the parser's input stack
    r_in = chk.rule("C20.include", "the parser's input stack: (a) the INCLUDE handler loads a file only after a throwing test that the same path is not already on the stack (no unbounded recursion); (b) the end-of-file pop in ParserState::done advances a counter, and every site that extends the record view (update_record_buffer: a string_view into ONE file's text) compares that counter with the value saved when the record began and throws on a difference", floor=3)
    ps_fns = [f for f in fx.fns if f["file"].endswith("Parser/Parser.cpp") and f.get("body")]
    loaders = []
    for f in ps_fns:
        pm = None
        for c in walk(f["body"]):
            m_, o_ = meth(c)
            if m_ == "loadFile" and c.get("a") and not (f.get("cls") or "").endswith("ParserState") and any(meth(x)[0] == "getIncludeFilePath" for x in walk(f["body"])):
                loaders.append((f, c))
    if not loaders:
        raise core.AnalysisBroken("C20.include: the INCLUDE handler (loadFile of a getIncludeFilePath result) was not found in Parser.cpp")

    def reads_stack(q, depth=0, seen=None):
        seen = seen or set()
        if q in seen or depth > 3:
            return False
        seen.add(q)
        for g in by_q.get(q, []):
            if not g.get("body"):
                continue
            for x in walk(g["body"]):
                if x["k"] == "Mem" and x.get("n") in ("input_stack", "c") and "Stack" in ((x.get("t") or "") + (x.get("cls") or "")) or (x["k"] == "Mem" and x.get("n") == "input_stack"):
                    return True
                if x["k"] in ("MCall", "Call") and x.get("fn") and reads_stack(x["fn"], depth + 1, seen):
                    return True
        return False
    for f, c in loaders:
        arg = show(strip(c["a"][0]))
        tests = []
        for n in walk(f["body"]):
            if n["k"] == "If" and n.get("l", 0) <= c["l"] and isinstance(n.get("cond"), dict) and any(x["k"] == "Throw" for x in walk(n["then"])):
                for x in walk(n["cond"]):
                    if x["k"] == "MCall" and (x.get("cls") or "").endswith("ParserState") and x.get("a") and show(strip(x["a"][0])) == arg and reads_stack(x.get("fn")):
                        tests.append((n, x))
        key = "%s:loadFile(%s)" % (f["q"].split("::")[-1], arg[:40])
        chk.instance(r_in, key, sample=dict(function=f["q"], loads=arg, open_test=[show(t[1])[:60] for t in tests]))
        if not tests:
            chk.violation(r_in, key, "%s pushes the file `%s` on the input stack without first testing (and rejecting) that it is already being read: a file that includes itself, directly or through others, is read for ever" % (f["q"], arg), f["file"], c["l"])
    dn = [f for f in ps_fns if f["q"].endswith("ParserState::done")]
    if len(dn) != 1:
        raise core.AnalysisBroken("ParserState::done not found")
    counters = set()
    pops = 0
    for n in walk(dn[0]["body"]):
        if n["k"] in ("While", "For", "If", "Block"):
            st = stmt_list(n.get("body") or n.get("then") or n)
            if any(meth(x)[0] == "pop" for s_ in st for x in walk(s_)):
                pops += 1
                for s_ in st:
                    for x in walk(s_):
                        if x["k"] == "Un" and "++" in (x.get("op") or ""):
                            for y in walk(x["c"][0]):
                                if y["k"] == "Mem":
                                    counters.add(y["n"])
                        if x["k"] == "Bin" and x.get("op") == "+=" :
                            for y in walk(x["c"][0]):
                                if y["k"] == "Mem":
                                    counters.add(y["n"])
    chk.instance(r_in, "done:counter", sample=dict(pop_sites=pops, counters=sorted(counters)))
    if not pops:
        raise core.AnalysisBroken("ParserState::done: the end-of-file pop was not recognised")
    if not counters:
        chk.violation(r_in, "done:counter", "ParserState::done pops a finished file without advancing a file counter: code holding a string_view into the popped file's text (the record buffer) cannot tell that the next line comes from another buffer", dn[0]["file"], dn[0]["l"])
    n_sites = 0
    for f in ps_fns:
        pm = {}
        for x in walk(f["body"]):
            for ch in __import__("verif.tree", fromlist=["children"]).children(x):
                pm[id(ch)] = x
        for c in walk(f["body"]):
            if c["k"] == "Call" and (c.get("fn") or "").endswith("update_record_buffer"):
                n_sites += 1
                # innermost enclosing lambda or the function body
                scope, p_ = f["body"], pm.get(id(c))
                while p_ is not None:
                    if p_["k"] == "Lambda":
                        scope = p_["body"]
                        break
                    p_ = pm.get(id(p_))
                ok = False
                for n in walk(scope):
                    if n["k"] == "If" and n.get("l", 0) <= c["l"] and any(x["k"] == "Throw" for br in (n["then"], n.get("else")) if br for x in walk(br)):
                        cond_chain = [n["cond"]]
                        if any(y["k"] == "Mem" and y.get("n") in counters for cnd in cond_chain for y in walk(cnd)):
                            ok = True
                    if n["k"] == "If" and n.get("else") is not None and n["else"].get("k") == "If":
                        e2 = n["else"]
                        if e2.get("l", 0) <= c["l"] and any(x["k"] == "Throw" for x in walk(e2["then"])) and any(y["k"] == "Mem" and y.get("n") in counters for y in walk(e2["cond"])):
                            ok = True
                key = "extend@%s" % show_line(f, c["l"])
                chk.instance(r_in, key, sample=dict(function=f["q"], call=show(c)[:70], file_switch_tested=ok))
                if not ok:
                    chk.violation(r_in, key, "%s extends the record view with update_record_buffer without comparing the file counter of ParserState::done (%s) with the value saved when the record began: when an include file ends inside a record the next line lies in another buffer and the view spans unrelated memory" % (f["q"], sorted(counters) or "none"), f["file"], c["l"])
    if not n_sites:
        raise core.AnalysisBroken("no call of update_record_buffer found in Parser.cpp")

    # ---- C20.signidx: a signed index that is counted down never reaches an unsigned use while it may be negative
    # the membership test behind the recursion guard
    isc = [f for f in fx.fns if f["q"].endswith("InputStack::contains") and f.get("body")]
    if len(isc) != 1:
        raise core.AnalysisBroken("InputStack::contains: %d definitions" % len(isc))
    isc = isc[0]
    cst = stmt_list(isc["body"])
    okc_ = False
    detc_ = [show(x)[:200] for x in cst]
    if len(cst) == 1 and cst[0]["k"] == "Return":
        c_ = strip(cst[0]["e"])
        lam_ = [strip(a_) for a_ in (c_.get("a") or []) if strip(a_).get("k") == "Lambda"]
        okc_ = c_.get("k") == "Call" and (c_.get("fn") or "").endswith("std::any_of") and len(c_.get("a") or []) == 3 and re.fullmatch(r"this\.c\.begin\(\)", show(strip(c_["a"][0]))) is not None \
            and re.fullmatch(r"this\.c\.end\(\)", show(strip(c_["a"][1]))) is not None and len(lam_) == 1 and any((x.get("fn") or "").endswith("filesystem::equivalent") for x in walk(lam_[0]["body"]) if x.get("k") == "Call")
    chk.instance(r_in, "contains", sample=dict(body=detc_))
    if not okc_:
        chk.violation(r_in, "contains", "InputStack::contains(p) must answer whether ANY entry of the whole stack is the same file as p (std::any_of over c.begin()..c.end() with filesystem::equivalent); found %s - an INCLUDE cycle through two or more files would no longer be refused, and parsing never ends" % detc_, isc["file"], isc["l"])

    r_sg = chk.rule("C20.signidx", "a signed local that its function counts down (--v, v -= k, a search loop `for (; v >= 0; --v)`) is never converted to an unsigned type or used as a subscript at a point where it may be negative: sign analysis over the structured control flow (if/else chains refine on v < 0 / v >= 0, a branch that throws or returns does not flow on, after a count-down loop the variable may be -1)", floor=8)
    from verif import signidx
    for f in fx.fns:
        if not f.get("body") or not f["file"].startswith(core.REPO + "/opm/"):
            continue
        rep, tracked = signidx.analyse(f)
        if not tracked:
            continue
        chk.instance(r_sg, f["q"] + ":" + ",".join(sorted(tracked)), sample=dict(function=f["q"], counted_down=sorted(tracked), unsigned_uses_while_possibly_negative=len(rep), in_entry_closure=f["q"] in closure))
        for line, var, text in rep:
            chk.violation(r_sg, "%s:%s:%s" % (f["q"], var, text[:30]), "%s: `%s` may be negative (it is counted down, and no test or assignment on this path rules -1 out) where it is used as an unsigned index in `%s`: the conversion wraps to a huge index and the access is outside the container (no exception)" % (f["q"], var, text), f["file"], line)

    # ---- C20.sizebound: front / back / pop on a sequence that may be empty
    r_sb = chk.rule("C20.sizebound", "a std::vector / deque / string that a function fills itself (declared empty there) or receives by mutable reference is never asked for front() / back() / pop_back() / pop_front() at a point where the lower bound on its size is 0: the bound follows push/pop, clear, resize(n + k), tests of empty() and size() against literals (also inside && / ||), branches that throw or return, loops (bounds survive a loop that only grows the container; an endless loop is left through its breaks); a parameter starts from the smallest bound of its call sites in the same file, and a helper that begins with `if (p.empty()) throw` establishes the bound for its argument", floor=100)
    from verif import sizebound
    byfile = {}
    for f in fx.fns:
        if f.get("body") and f["file"].startswith(core.REPO + "/opm/") and f["file"].endswith(".cpp"):
            byfile.setdefault(f["file"], []).append(f)
    for fl, fns_ in sorted(byfile.items()):
        for f, rep, tr in sizebound.analyse_unit(fns_):
            if not tr:
                continue
            chk.instance(r_sb, f["q"] + "@%d" % f["l"], sample=dict(function=f["q"], containers=sorted(tr), unguarded=len(rep), in_entry_closure=f["q"] in closure))
            for line, var, text, lb in rep:
                chk.violation(r_sb, "%s:%s:%s" % (f["q"], var, text), "%s: `%s` at a point where `%s` may be empty (nothing on this path establishes size() >= 1: no push since the last pop/clear, no test of empty()/size(), no guarding helper): front/back/pop on an empty sequence is undefined - a read or write outside the buffer, no exception" % (f["q"], text, var), f["file"], line)

    # ---- C20.parallel: parallel vectors stay the same length
    r_pv = chk.rule("C20.parallel", "classes that keep two sequences side by side and range-check an index against one of them only (DeckItem: value_status beside the typed value vector; TableColumn: m_default beside m_values): in every statement list of every member function, each of the value sequences that changes its length changes it by the same operations as the checked sequence (push_back with push_back, insert(end, n, ..) with insert(end, n, ..), assignment from the same source) - otherwise get(i) / operator[] read past the end of the shorter one for an index that passed the check", floor=8)
    from verif import parallel
    PARALLEL = [("opm/input/eclipse/Deck/DeckItem.cpp", "Opm::DeckItem", "value_status", ("ival", "dval", "sval", "rsval", "uval"), ("value_ref",)),
                ("opm/input/eclipse/EclipseState/Tables/TableColumn.cpp", "Opm::TableColumn", "m_default", ("m_values",), ())]
    for pfile, pcls, pguard, pdata, prefs in PARALLEL:
        n_here = 0
        for f in fx.fns:
            if not f.get("body") or not f["file"].endswith(pfile) or (f.get("cls") or "") != pcls:
                continue
            got, bad = parallel.unbalanced(f, pguard, pdata, prefs)
            if not got:
                continue
            n_here += 1
            key = "%s@%d" % (f["q"], f["l"])
            chk.instance(r_pv, key, sample=dict(function=f["q"], operations=[(g[3], g[4], list(g[5])) for g in got]))
            for line, base, gops, wrong in bad:
                chk.violation(r_pv, key, "%s: `%s%s` changes by %s but %s: an index accepted against %s.size() is then out of range for the other sequence" % (
                    f["q"], base, pguard, [list(o) for o in gops] or "nothing", "; ".join("`%s` changes by %s" % (m_, [list(o) for o in o_]) for m_, o_ in sorted(wrong.items())) or "no value sequence changes", pguard), f["file"], line)
        if n_here < 2:
            raise core.AnalysisBroken("%s: only %d member functions change the length of %s / %s" % (pcls, n_here, pguard, "/".join(pdata)))

    # ---- C20.columns: records kept as several member vectors grow together
    r_co = chk.rule("C20.columns", "classes that keep a table as several member vectors, one per column, indexed by the same row number (confirmed by reading; frozen below): in every statement list of every member function a column changes its length exactly as the other columns of its table do - a column that falls behind is read past its end by the accessors, which test the row number against one column only.  Exceptions (a sentinel entry at one end of one column) are listed with their reason", floor=7)
    COLUMNS = [
        ("opm/io/eclipse/EclFile.cpp", "Opm::EclIO::EclFile", ["array_name", "array_type", "array_size", "array_element_size", "arrayLoaded", "ifStreamPos"],
         {("load", "ifStreamPos"): "one extra entry after the last array: the end-of-file position"}),
        ("opm/io/eclipse/OutputStream.cpp", "Opm::EclIO::OutputStream::SummarySpecification::Parameters", ["keywords", "wgnames", "nums", "units"], {}),
        ("opm/io/eclipse/ESmry.cpp", "Opm::EclIO::ESmry", ["vectorData", "vectorLoaded"], {}),
        ("opm/io/eclipse/EInit.cpp", "Opm::EclIO::EInit", ["lgr_names", "lgr_array_index", "lgr_nijk", "lgr_nactive"], {}),
        ("opm/io/eclipse/ExtESmry.cpp", "Opm::EclIO::ExtESmry", ["m_esmry_files", "m_keyword_index", "m_nTstep_v", "m_rstep_offset", "m_rstep_v", "m_tstep_range", "m_tstep_v"], {}),
        ("opm/input/eclipse/EclipseState/Tables/Rock2dTable.cpp", "Opm::Rock2dTable", ["m_pressureValues", "m_pvmultValues"], {}),
        ("opm/input/eclipse/EclipseState/Tables/Rock2dtrTable.cpp", "Opm::Rock2dtrTable", ["m_pressureValues", "m_transMultValues"], {}),
    ]
    for cfile, ccls, cmem, cexc in COLUMNS:
        n_here = 0
        for f in fx.fns:
            if not f.get("body") or not f["file"].endswith(cfile) or (f.get("cls") or "") != ccls or f["n"] == "serializationTestObject":
                continue
            got, bad = parallel.unbalanced(f, cmem[0], cmem[1:], strict=True)
            if not got:
                continue
            n_here += 1
            key = "%s@%d" % (f["q"], f["l"])
            chk.instance(r_co, key, sample=dict(function=f["q"], columns=cmem, operations=sorted({(g[4], g[5]) for g in got})))
            for line, base, gops, wrong in bad:
                # the first column is the reference; a difference may also be the reference falling behind
                allc = dict(wrong)
                if all((f["n"], m_) in cexc for m_ in allc) and not gops:
                    continue
                chk.violation(r_co, key, "%s: in the statement list at line %s column `%s` changes by %s but %s: the columns of one table no longer have the same number of rows" % (
                    f["q"], line, cmem[0], [list(o) for o in gops] or "nothing", "; ".join("`%s` by %s" % (m_, [list(o) for o in o_] or "nothing") for m_, o_ in sorted(allc.items()))), f["file"], line)
        if n_here < 1:
            raise core.AnalysisBroken("%s: no member function changes the length of %s" % (ccls, "/".join(cmem)))

    # ---- C20.loopbound: counting loops over a sequence stay inside it
    r_lb = chk.rule("C20.loopbound", "a counting loop `for (i = ..; i OP C.size() +/- k; ++i)` over a std::vector / string / array / deque that subscripts the same sequence with operator[] (unchecked) at i + m: in the last iteration the index is at most size - 1 (with `<` / `!=` against size() - k the offset m is at most k; `<=` needs m < k).  The bound may be a local initialised from C.size() that is not written again; loops that move the index or resize the sequence in the body, and subscripts under a test of the index, are left undecided", floor=100)
    from verif import loopbound
    for f in fx.fns:
        if not f.get("body") or not f["file"].startswith(core.REPO + "/opm/"):
            continue
        for l_, cont, iv, op, boff, subs in loopbound.analyse(f):
            key = "%s@%d" % (f["q"], l_)
            chk.instance(r_lb, key, sample=dict(function=f["q"], sequence=cont, index=iv, test="%s %s %s.size()%s" % (iv, op, cont, ("%+d" % boff) if boff else ""), subscripts=[(m, ok, g) for _, m, ok, g in subs]))
            for sl, m, ok, guarded in subs:
                if not ok and not guarded:
                    chk.violation(r_lb, key, "%s: the loop runs while `%s %s %s.size()%s` and reads `%s[%s%s]`: in its last iteration the index is %s.size()%+d, outside the sequence (unchecked operator[])" % (
                        f["q"], iv, op, cont, ("%+d" % boff) if boff else "", cont, iv, ("%+d" % m) if m else "", cont, boff + m - (1 if op in ("<", "!=") else 0)), f["file"], sl)

    # ---- C20.meet: cursors that approach each other leave the loop on an ordering test
    r_me = chk.rule("C20.meet", "a loop in which one integer cursor is moved up and another moved down and whose exit compares the two: the exit is an ordering test (`a >= b`, `a < b`), never an equality - when both cursors move in one iteration they cross without ever being equal, run off both ends of the sequence they index and the loop does not end", floor=1)
    from verif import meet
    for f in fx.fns:
        if not f.get("body") or not f["file"].startswith(core.REPO + "/opm/"):
            continue
        for l_, ttext, is_eq, a_, b_ in meet.analyse(f):
            key = "%s@%d" % (f["q"], l_)
            chk.instance(r_me, key, sample=dict(function=f["q"], test=ttext, cursors=[a_, b_], equality=is_eq))
            if is_eq:
                chk.violation(r_me, key, "%s: the loop ends on the equality test `%s` although `%s` and `%s` move towards each other inside it: when both move in one iteration they cross unequal, and the accesses they index leave the sequence" % (f["q"], ttext, a_, b_), f["file"], l_)

    # ---- C20.stateinit: the first report step holds an object behind every shared member
    r_si = chk.rule("C20.stateinit", "ScheduleState keeps most of its components behind ptr_member<T> (a shared_ptr that is dereferenced without a test by operator() / get()): Schedule::create_first gives every such member an object (`sched_state.<member>.update(...)`), so that no keyword handler or accessor of any report step - all later steps are copies of the first - dereferences a null pointer (SIGSEGV instead of a result or an exception)", floor=18)
    six = chk.facts(["opm/input/eclipse/Schedule/Schedule.cpp"], files_re=r"^/repo/opm/input/eclipse/Schedule/ScheduleState\.hpp$")
    srec = six.recs.get("Opm::ScheduleState")
    cfs = [f for f in six.fns if f["q"] == "Opm::Schedule::create_first" and f.get("body")]
    if srec is None or len(cfs) != 1:
        raise core.AnalysisBroken("ScheduleState record / Schedule::create_first not found")
    pmem = [f_["n"] for f_ in srec["fields"] if "ptr_member<" in (f_.get("t") or f_.get("ct") or "")]
    given = set()
    for n in walk(cfs[0]["body"]):
        m_, o_ = meth(n)
        if m_ == "update" and o_ is not None:
            m2 = re.fullmatch(r"(\w+)\.(\w+)", show(strip(o_)))
            if m2:
                given.add(m2.group(2))
    for mname in pmem:
        chk.instance(r_si, mname, sample=dict(member=mname, initialised=mname in given))
        if mname not in given:
            chk.violation(r_si, mname, "Schedule::create_first never gives ScheduleState::%s an object: the member stays a null shared_ptr in every report step, and its accessor dereferences it without a test" % mname, cfs[0]["file"], cfs[0]["l"])

    r_cu = chk.rule("C20.cursor", "token cursors (an index compared with V.size(), used in V[idx] and advanced by the code): every V[idx] is preceded on every path by a test that establishes idx < V.size() since the last advance; where the end is tested with equality the cursor is never advanced from a state that may already be the end", floor=40)
    n_cursors = 0
    for f in fx.fns:
        if not f.get("body") or f["q"] not in closure:
            continue
        for idx, cont, eq in cc.local_cursors(f):
            cur = cc.Cursor(idx, cont)
            an = cc.Analysis(cur, f, eq)
            an.nonempty = cc.nonempty_prefix(f["body"], cur)
            an.run(f["body"], False)
            n_cursors += 1
            for kind, l, text, ok in an.instances:
                chk.instance(r_cu, "%s:%s@%d:%s" % (f["q"], idx, l, kind), sample=dict(function=f["q"], cursor=idx, container=cont, event=kind, expr=text, in_bounds_known=bool(ok), end_tested_with_equality=eq))
            for kind, l, text in an.reports:
                chk.violation(r_cu, "%s:%s:%s@%s" % (f["q"], idx, kind, show_line(f, l)), "%s: %s" % (f["q"], text), f["file"], l)
    by_cls = {}
    for f in fx.fns:
        if f.get("body") and f.get("cls") and f["q"] in closure:
            by_cls.setdefault(f["cls"], []).append(f)
    for cls, idx, cont, eq, roles, fns in cc.member_cursors(by_cls):
        n_cursors += 1
        chk.info(r_cu, "member cursor %s::%s into %s: advance=%s fetch=%s at-end=%s%s" % (cls, idx, cont, sorted(roles["advance"]), sorted(roles["fetch"]), sorted(roles["atend"]), " (end tested with equality)" if eq else ""))
        # assumption behind the token facts: fetching at the end yields the `end` token (so token.type != end <=> in bounds)
        for ff in fns:
            if ff["n"] in roles["fetch"] or ff["n"] in roles["advance"]:
                gives_end = False
                for n in walk_fn(ff):
                    if n["k"] == "If":
                        c_txt = show(n["cond"])
                        at_end = (idx in c_txt and cont in c_txt and ("==" in c_txt or ">=" in c_txt)) or any(a_ + "()" in c_txt for a_ in roles["atend"])
                        if at_end and any(x["k"] == "Return" and x.get("e") is not None and any(y["k"] == "Ref" and y.get("d") == "Enum" and y["n"] == "end" for y in walk(x["e"])) for x in walk(n["then"])):
                            gives_end = True
                fetches_directly = any(cc.subscript(n) for n in walk_fn(ff))
                if fetches_directly and not gives_end:
                    chk.fail_broken("C20.cursor: %s::%s reads %s[%s] but does not return the `end` token under an at-end test: the token-type facts of the analysis do not apply" % (cls, ff["n"], cont, idx))
        for f, an in cc.analyse_member(cls, idx, cont, eq, roles, fns):
            for kind, l, text, ok in an.instances:
                chk.instance(r_cu, "%s:%s@%d:%s" % (f["q"], idx, l, kind), sample=dict(function=f["q"], cursor=idx, container=cont, event=kind, expr=text, in_bounds_known=bool(ok), end_tested_with_equality=eq))
            for kind, l, text in an.reports:
                chk.violation(r_cu, "%s:%s:%s@%s" % (f["q"], idx, kind, show_line(f, l)), "%s: %s" % (f["q"], text), f["file"], l)
    chk.extra["cursors_analysed"] = n_cursors
    if n_cursors < 4:
        raise core.AnalysisBroken("only %d token cursors found (UDQParser, Action::Parser, Action::Condition, make_udq_tokens are four on the pinned tree)" % n_cursors)
    from verif import fallthrough
    fallthrough.run(chk, "C20", floor=20)
    from verif import moved
    moved.run(chk, "C20", r"^/repo/opm/", floor=120)
    from verif import rawio
    rawio.run(chk, "C20", floor=30)
    from verif import argorder
    argorder.run(chk, "C20", floor=160)

    chk.assumptions += [
        "C20.cursor: a token fetched at the cursor has type `end` exactly when the cursor is at the end (checked: the fetch returns the end token under its at-end test); predicates P(token.type) are false for `end`",
        "call graph from resolved callee names (overloads merged, every override of a same-named virtual method included): an over-approximation of reachability",
        "memory safety, hangs and undefined behaviour are not analysed",
    ]
