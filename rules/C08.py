"""C08  Unified restart file under rewinds — the rewind protocol.

Decides: truncate-then-append is the only mutation of an existing unified restart file and is ordered
correctly (C08.open, C08.order), the write position is the first stored report step >= the requested
one (C08.pos), the rewind arithmetic subtracts exactly the header the writer emits (C08.hdr, joined with
the C07 header sums), a unified stream starts every step with SEQNUM (C08.seq).  Not decided:
byte-for-byte preservation and the crash clause (any truncation reads back or raises) - those quantify
over crash points.
"""
import re

from verif import core
from verif.tree import decast, walk, walk_fn, show as _show, stmt_list, meth, strip, simp


def show(n):
    return simp(_show(n))

from rules import C07

LEVEL = "other"
OS = "opm/io/eclipse/OutputStream.cpp"
ERST = "opm/io/eclipse/ERst.cpp"
EFILE = "opm/io/eclipse/EclFile.cpp"


def run(chk):
    fx = chk.facts([OS, ERST, EFILE, C07.OUT, C07.UTIL])

    # ---- C08.open
    r_open = chk.rule("C08.open", "existing unified files are opened in append mode only (never truncating), new files with out", floor=4)
    modes = {}
    for f in fx.fns:
        if f["file"].endswith("OutputStream.cpp") and f["n"] in ("writeNew", "writeExisting") and "Open::" in f["q"]:
            refs = [x["n"] for x in walk(f["body"]) if x["k"] in ("Ref", "Mem") and x["n"] in ("app", "out", "trunc", "ate", "in", "binary")]
            modes[f["q"].split("Open::")[-1]] = refs
    for q, refs in sorted(modes.items()):
        want = ["app"] if q.endswith("writeExisting") else ["out"]
        chk.instance(r_open, q, sample=dict(function=q, mode=refs))
        if refs != want:
            chk.violation(r_open, q, "Open::%s opens the file with %s; %s" % (q, refs, "an existing unified file must be opened with std::ios_base::app so that earlier report steps survive" if want == ["app"] else "a new file is created with std::ios_base::out"), core.REPO + "/" + OS, None)
    if not {"Restart::writeExisting", "Restart::writeNew"} <= set(modes):
        raise core.AnalysisBroken("Open::Restart::writeNew/writeExisting not found")

    # ---- C08.order
    r_ord = chk.rule("C08.order", "openExisting: open (append) -> return if no position -> resize_file(fname, writePos) -> seek to end, failing loudly; openUnified: create / reject non-restart / reopen at the step's write position", floor=4)
    oe = fx.fn1("Opm::EclIO::OutputStream::Restart::openExisting")
    body = stmt_list(oe["body"])
    kinds = []
    for s in body:
        t = show(s)
        if s["k"] in ("Bin", "OpCall") and "writeExisting" in t and "this.stream_" in t:
            kinds.append("open")
        elif s["k"] == "If" and "writePos" in show(s["cond"]) and "-1" in show(s["cond"]).replace("(-1)", "-1") and stmt_list(s["then"]) and stmt_list(s["then"])[-1]["k"] == "Return":
            kinds.append("noPos-return")
        elif s["k"] == "Call" and (s.get("fn") or "").endswith("resize_file"):
            kinds.append("resize:" + ",".join(show(a) for a in s["a"]))
        elif s["k"] == "If" and "seekp" in show(s["cond"]) and any(x["k"] == "Throw" for x in walk(s["then"])):
            c = [x for x in walk(s["cond"]) if x["k"] == "MCall" and x.get("m") == "seekp"]
            neg = show(s["cond"]).startswith("(!")
            kinds.append("seek:%s:%s" % (",".join(show(a).split("::")[-1] for a in c[0]["a"]), "throws-on-failure" if neg else "?"))
        else:
            kinds.append("other:" + s["k"])
    chk.instance(r_ord, "openExisting", sample=kinds)
    want = ["open", "noPos-return", "resize:fname,writePos", "seek:0,end:throws-on-failure"]
    if kinds != want:
        chk.violation(r_ord, "openExisting", "Restart::openExisting performs %s; the rewind protocol is %s" % (kinds, want), oe["file"], oe["l"])
    ou = fx.fn1("Opm::EclIO::OutputStream::Restart::openUnified")
    branches = []
    for iff in [n for n in walk(ou["body"]) if n["k"] == "If"]:
        c = show(iff["cond"])
        t = show(iff["then"])
        branches.append((c, "openNew" if "openNew" in t else "throw" if any(x["k"] == "Throw" for x in walk(iff["then"])) else "openExisting" if "openExisting" in t else "?"))
        if iff.get("else") and iff["else"]["k"] != "If":
            t2 = show(iff["else"])
            branches.append(("else", "openExisting" if "openExisting" in t2 else "openNew" if "openNew" in t2 else "?"))
    # facts are loaded with `if (!c) A else B` as `if (c) B else A`: bring the SEQNUM test back to its negated spelling
    if [b[1] for b in branches] == ["openNew", "openExisting", "?"] or [b[1] for b in branches] == ["openNew", "openExisting", "throw"]:
        c1_ = branches[1][0]
        if 'hasKey(' in c1_ and not c1_.startswith("(!"):
            iff2 = [n for n in walk(ou["body"]) if n["k"] == "If"][1]
            if iff2.get("else") is not None and any(x["k"] == "Throw" for x in walk(iff2["else"])):
                branches = [branches[0], ("(!%s)" % c1_, "throw"), ("else", "openExisting")]
    chk.instance(r_ord, "openUnified", sample=branches)
    if [b[1] for b in branches] != ["openNew", "throw", "openExisting"] or branches[0][0] != "(rst == nullptr)" or 'hasKey("SEQNUM")' not in branches[1][0].replace("std::basic_string<char>{", "").replace(", <default>}", ""):
        chk.violation(r_ord, "openUnified", "Restart::openUnified decides %s; expected: no file -> create, no SEQNUM -> reject, else reopen" % branches, ou["file"], ou["l"])
    oc = [c for c in walk(ou["body"]) if c["k"] == "MCall" and c.get("m") == "openExisting"]
    arg = show(oc[0]["a"][2]) if oc else None
    chk.instance(r_ord, "openUnified:pos", sample=arg)
    if not oc or "restartStepWritePosition(seqnum)" not in arg:
        chk.violation(r_ord, "openUnified:pos", "the reopen position is %s; it must be the write position of the requested report step" % arg, ou["file"], ou["l"])
    # nothing else truncates
    for f in fx.fns:
        if f["file"].endswith("OutputStream.cpp") and f.get("body"):
            for c in walk_fn(f):
                if c["k"] == "Call" and (c.get("fn") or "").split("::")[-1] in ("resize_file", "remove", "truncate", "rename"):
                    chk.instance(r_ord, "mutation:%s:%s" % (f["q"], c["fn"]), sample=dict(function=f["q"], call=c["fn"]))
                    if f["q"] != oe["q"] and c["fn"].split("::")[-1] in ("resize_file", "truncate"):
                        chk.violation(r_ord, "mutation:%s" % f["q"], "%s also truncates files (%s)" % (f["q"], c["fn"]), f["file"], c["l"])

    # ---- C08.pos
    r_pos = chk.rule("C08.pos", "the write position for report step s is the start of the first stored step >= s (lower_bound on the ordered step index), or -1 when every stored step is smaller", floor=2)
    wp = fx.fn1("Opm::EclIO::ERst::restartStepWritePosition")
    env = {v["n"]: v.get("init") for n in walk(wp["body"]) if n["k"] == "Decl" for v in n["vars"]}
    lb = env.get("pos")
    m, obj = meth(strip(lb)) if lb else (None, None)
    chk.instance(r_pos, "search", sample=show(lb))
    if m != "lower_bound" or show(obj) != "this.arrIndexRange" or show(strip(lb)["a"][0]) != "seqnumValue":
        chk.violation(r_pos, "search", "the step is located with %s; it must be arrIndexRange.lower_bound(seqnumValue): upper_bound/find would keep or drop the wrong steps" % show(lb), wp["file"], wp["l"])
    ret = [n for n in walk(wp["body"]) if n["k"] == "Return"][0]["e"]
    r_ = strip(ret)
    okr = r_["k"] == "Cond" and "pos" in show(r_["c"][0]) and "this.arrIndexRange.end()" in show(r_["c"][0]) and "==" in show(r_["c"][0]) and "-1" in show(r_["c"][1]).replace("(-1)", "-1") and "this.seekPosition(pos.second.first)" in show(r_["c"][2]).replace("(*pos)", "pos").replace("->", ".")
    chk.instance(r_pos, "result", sample=show(ret)[:160])
    if not okr:
        chk.violation(r_pos, "result", "restartStepWritePosition returns %s; expected end() ? -1 : seekPosition(first array of that step)" % show(ret)[:200], wp["file"], wp["l"])
    # the index is an ordered map keyed by report step
    er = chk.facts([ERST], files_re="^/repo/opm/io/eclipse/ERst.hpp$", fn_re="^$").rec1("Opm::EclIO::ERst")
    fld = [f_ for f_ in er["fields"] if f_["n"] == "arrIndexRange"]
    chk.instance(r_pos, "index-type", sample=fld[0]["t"] if fld else None)
    if not fld or not fld[0]["ct"].startswith("std::map<int,"):
        chk.violation(r_pos, "index-type", "arrIndexRange is %s; lower_bound needs an ordered map keyed by report step" % (fld[0]["t"] if fld else None), er["file"], er["l"])

    # ---- C08.hdr
    r_hdr = chk.rule("C08.hdr", "EclFile::seekPosition rewinds from the data position by exactly the header the writer emits (24 bytes unformatted, 30 characters + newline formatted)", floor=2)
    seq, nchar, wb, wf = C07.header_sums(fx)
    sp = fx.fn1("Opm::EclIO::EclFile::seekPosition")
    env = {v["n"]: strip(v.get("init")) for n in walk(sp["body"]) if n["k"] == "Decl" for v in n["vars"]}
    hs = env.get("headerSize")
    if hs is None or hs["k"] != "Cond":
        raise core.AnalysisBroken("seekPosition: headerSize is no longer `formatted ? a : b`")
    cond, a, b = show(hs["c"][0]), strip(hs["c"][1]).get("v"), strip(hs["c"][2]).get("v")
    if cond != "this.formatted":
        raise core.AnalysisBroken("seekPosition: headerSize condition is %s" % cond)
    nchar_line = nchar + 1      # the header line's terminating newline precedes the data position too (C07.header_sums checks there is exactly one)
    chk.instance(r_hdr, "formatted", sample=dict(reader_subtracts=a, writer_emits="%d characters + newline" % nchar))
    chk.instance(r_hdr, "unformatted", sample=dict(reader_subtracts=b, writer_emits=sum(x or 0 for x in seq)))
    if a != nchar_line:
        chk.violation(r_hdr, "formatted", "seekPosition subtracts %s bytes but writeFormattedHeader emits %s characters plus the newline = %s" % (a, nchar, nchar_line), sp["file"], sp["l"])
    if b != sum(x or 0 for x in seq):
        chk.violation(r_hdr, "unformatted", "seekPosition subtracts %s bytes but writeBinaryHeader emits %s = %s" % (b, "+".join(str(x) for x in seq), sum(x or 0 for x in seq)), sp["file"], sp["l"])
    seek = show(env.get("seekpos"))
    dp = show(env.get("datapos"))
    chk.instance(r_hdr, "arith", sample=dict(datapos=dp, seekpos=seek))
    if dp != "this.ifStreamPos[arrIndex]" or seek != "((datapos <= headerSize) ? 0 : (datapos - headerSize))":
        chk.violation(r_hdr, "arith", "seekPosition computes %s from %s; expected datapos - headerSize (clamped at 0) from ifStreamPos[arrIndex]" % (seek, dp), sp["file"], sp["l"])

    # ---- C08.tail: the reader's only protection against a cut-short unformatted record
    r_tail = chk.rule("C08.tail", "readBinaryArray rejects a block whose element count is out of range, a short non-final block, and a tail marker that differs from the head (necessary for: a truncated file raises instead of returning data)", floor=1)
    C07.check_reader_bracket(chk, fx, r_tail)

    # ---- C08.seq
    r_seq = chk.rule("C08.seq", "unified output starts every report step with a SEQNUM record carrying the step number", floor=1)
    ctors = [f for f in fx.fns if f["q"] == "Opm::EclIO::OutputStream::Restart::Restart" and len(f["params"]) >= 4]
    if len(ctors) != 1:
        raise core.AnalysisBroken("OutputStream::Restart constructor not found")
    c = ctors[0]
    iff = [n for n in walk(c["body"]) if n["k"] == "If" and "unif.set" in show(n["cond"])]
    seqs = []
    if iff:
        st = stmt_list(iff[0]["then"])
        seqs = [show(s)[:120] for s in st]
    ok = len(seqs) == 2 and "openUnified(fname, fmt.set, seqnum)" in seqs[0] and '"SEQNUM"' in seqs[1] and "seqnum" in seqs[1].split("SEQNUM")[-1]
    chk.instance(r_seq, "ctor", sample=seqs)
    if not ok:
        chk.violation(r_seq, "ctor", "the unified branch of the Restart constructor does %s; it must reopen at the step and write SEQNUM(step) first" % seqs, c["file"], c["l"])
    # ---- C08.index: report step -> [first, last) array index of a unified restart file
    r_ix = chk.rule("C08.index", "ERst::initUnified partitions the arrays of a unified restart file into half-open ranges: the k-th SEQNUM starts range k (its array index and its report number are recorded in the same branch), range k ends where range k+1 starts and the last one at the number of arrays, the range is stored under the k-th report number; every loop over a range runs first <= i < second; the scan for SEQNUM visits every array", floor=7)
    iu = fx.fn1("Opm::EclIO::ERst::initUnified")

    def sub2(n):
        n = strip(n)
        if n.get("k") == "Idx":
            return strip(n["c"][0]), strip(n["c"][1])
        if n.get("k") == "OpCall" and n.get("op") == "[]" and len(n.get("a") or []) == 2:
            return strip(n["a"][0]), strip(n["a"][1])
        return None

    def nm(e):
        e = strip(e)
        return e.get("n") if e.get("k") in ("Ref", "Mem") else None
    loops = [n for n in stmt_list(iu["body"]) if n["k"] == "For"]
    F = Sq = names = None
    for lp in loops:
        lv = [v["n"] for d in walk(lp.get("init") or {}) if d["k"] == "Decl" for v in d["vars"]]
        for iff in walk(lp["body"]):
            if iff["k"] == "If" and '== "SEQNUM"' in show(iff["cond"]).replace("std::basic_string<char>{", ""):
                sb = [x for x in walk(iff["cond"]) if sub2(x)]
                names = nm(sub2(sb[0])[0]) if sb else None
                for st in stmt_list(iff["then"]):
                    m_, o_ = meth(st)
                    if m_ == "push_back" and o_ is not None and st.get("a"):
                        a0 = strip(st["a"][0])
                        if a0.get("k") == "Ref" and lv and a0["n"] == lv[0]:
                            F = nm(o_)
                        elif sub2(a0) and strip(sub2(a0)[1]).get("k") == "Int" and strip(sub2(a0)[1])["v"] == 0:
                            Sq = nm(o_)
    # the scan visits EVERY array of the file (a SEQNUM that is the last array - a step that was started and cut short - counts)
    scan = [lp for lp in loops if any(iff["k"] == "If" and '== "SEQNUM"' in show(iff["cond"]).replace("std::basic_string<char>{", "") for iff in walk(lp["body"]))]
    if len(scan) == 1 and names:
        lp0 = scan[0]
        lv0 = [v for d in walk(lp0.get("init") or {}) if d["k"] == "Decl" for v in d["vars"]]
        init_ok = len(lv0) == 1 and strip(lv0[0].get("init") or {}).get("k") == "Int" and strip(lv0[0]["init"])["v"] == 0
        cnd0 = show(decast(lp0["cond"])).replace(" ", "")
        full = init_ok and cnd0 in ("(%s<this.%s.size())" % (lv0[0]["n"], names), "(%s!=this.%s.size())" % (lv0[0]["n"], names)) and "++" in show(lp0.get("inc") or {})
        chk.instance(r_ix, "scan", sample=dict(loop=cnd0, from_zero=init_ok))
        if not full:
            chk.violation(r_ix, "scan", "ERst::initUnified looks for SEQNUM records with `%s` (start at 0: %s): every array of the file must be visited - a file whose last array is a SEQNUM (a report step that was started and cut short) otherwise hides that step, its write position is not found and a rewrite appends a second copy" % (cnd0, init_ok), iu["file"], lp0["l"])
    chk.instance(r_ix, "collect", sample=dict(start_indices=F, report_numbers=Sq, array_names=names))
    if not (F and Sq and names):
        chk.violation(r_ix, "collect", "ERst::initUnified no longer records, in the branch that recognises a SEQNUM array, both its array index and its report number (found index list %s, number list %s)" % (F, Sq), iu["file"], iu["l"])
    else:
        rl = [lp for lp in loops if any(x.get("k") == "Mem" and x.get("n") == "arrIndexRange" for x in walk(lp["body"]))]
        if len(rl) > 1:
            raise core.AnalysisBroken("initUnified: more than one loop fills arrIndexRange")
        if not rl:
            chk.violation(r_ix, "ranges", "ERst::initUnified no longer stores a range of array indices for the report steps it found (no loop assigns arrIndexRange[...]): no report step of a unified file can be located", iu["file"], iu["l"])
        lp = rl[0] if rl else None
    if F and Sq and names and lp is not None:
        lv = [v["n"] for d in walk(lp.get("init") or {}) if d["k"] == "Decl" for v in d["vars"]][0]
        bound = show(decast(lp["cond"])).replace(" ", "")
        first = second_next = second_end = store = None
        for n in walk(lp["body"]):
            if n["k"] == "Bin" and n.get("asg") and n.get("op") == "=" and strip(n["c"][0]).get("k") == "Mem":
                fld = strip(n["c"][0])["n"]
                rhs = decast(n["c"][1])
                if fld == "first":
                    first = show(rhs)
                elif fld == "second":
                    t = show(rhs).replace(" ", "")
                    if t == "this.%s.size()" % names:
                        second_end = n
                    else:
                        second_next = (t, n)
            if n["k"] in ("OpCall", "Bin") and n.get("op") == "=" and sub2((n.get("a") or n.get("c"))[0]):
                b_, i_ = sub2((n.get("a") or n.get("c"))[0])
                if nm(b_) == "arrIndexRange":
                    store = show(decast(i_)).replace(" ", "")
        iffs = [n for n in walk(lp["body"]) if n["k"] == "If" and n.get("else") is not None]
        cond = show(decast(iffs[0]["cond"])).replace(" ", "") if iffs else None
        ok_cond = False
        if iffs and second_next and second_end is not None:
            in_then_next = any(x is second_next[1] for x in walk(iffs[0]["then"]))
            ne = cond in ("(%s!=(this.%s.size()-1))" % (lv, Sq), "((this.%s.size()-1)!=%s)" % (Sq, lv), "((%s+1)<this.%s.size())" % (lv, Sq), "((%s+1)!=this.%s.size())" % (lv, Sq))
            eq = cond in ("(%s==(this.%s.size()-1))" % (lv, Sq), "((this.%s.size()-1)==%s)" % (Sq, lv), "((%s+1)==this.%s.size())" % (lv, Sq))
            ok_cond = (ne and in_then_next) or (eq and not in_then_next)
        sample = dict(loop=bound, first=first, next=second_next[0] if second_next else None, last=show(second_end)[:60] if second_end is not None else None, last_test=cond, stored_under=store)
        chk.instance(r_ix, "ranges", sample=sample)
        okr = bound == "(%s<this.%s.size())" % (lv, Sq) and first == "%s[%s]" % (F, lv) and second_next and second_next[0] == "%s[(%s+1)]" % (F, lv) and ok_cond and store == "this.%s[%s]" % (Sq, lv)
        if not okr:
            chk.violation(r_ix, "ranges", "ERst::initUnified builds the report-step ranges as %s; range k must be [start(k), start(k+1)) - the last one up to the number of arrays - for every k, stored under report number k: otherwise a step reads arrays of its neighbour or loses its own" % sample, iu["file"], lp["l"])
    # half-open use
    n_use = 0
    for f in fx.fns:
        if f.get("cls") != "Opm::EclIO::ERst" or not f.get("body"):
            continue
        for lp in walk(f["body"]):
            if lp["k"] != "For" or not isinstance(lp.get("cond"), dict):
                continue
            c = strip(lp["cond"])
            txt = show(decast(c)).replace(" ", "")
            if not re.search(r"(\.second\b|std::get\(\w+\))", txt) or c.get("k") != "Bin":
                continue
            ini = show(decast(lp.get("init"))) if lp.get("init") else ""
            if not re.search(r"(\.first\b|std::get\()", ini):
                continue
            n_use += 1
            key = "use:%s@%s" % (f["n"], n_use)
            chk.instance(r_ix, key, sample=dict(function=f["q"], init=ini[:60], cond=txt[:60]))
            if c.get("op") != "<":
                chk.violation(r_ix, key, "%s walks a report step's arrays with `%s`: the range is half-open, first <= i < second; with %s the first array of the next step is taken as part of this one" % (f["q"], txt, c.get("op")), f["file"], lp["l"])

    # ---- the record framing the unformatted reader relies on (rules of C07, run here because a cut-short file must raise, not
    # yield wrong data): head/tail markers, payload, byte order
    class Only_unused:
        def __init__(self, chk_, allow):
            self.__dict__["c"] = chk_
            self.__dict__["allow"] = allow

        def __getattr__(self, k):
            return getattr(self.c, k)

        def __setattr__(self, k, v):
            setattr(self.c, k, v)

        def rule(self, rid, desc, floor=0):
            if rid in self.allow:
                return self.c.rule(rid, desc, floor)
            return rid

        def instance(self, rid, *a, **kw):
            if rid in self.allow:
                self.c.instance(rid, *a, **kw)

        def violation(self, rid, *a, **kw):
            if rid in self.allow:
                self.c.violation(rid, *a, **kw)

        def info(self, rid, *a, **kw):
            if rid in self.allow:
                self.c.info(rid, *a, **kw)
    import rules.C07 as c07
    c07.run(core.Only(chk, {"C07.bracket", "C07.payload", "C07.hdr", "C07.flip", "C07.sib", "C07.blocks", "C07.size", "C07.c0nn", "C07.hdrpair", "C07.fsize", "C07.c0nncols"}))

    # ---- C08.exists: "no such file" is decided by opening the file, not by a failed index
    r_ex = chk.rule("C08.exists", "OutputStream.cpp decides between starting a new unified restart file and continuing an existing one on whether the file can be OPENED: Open::Restart::read returns the null pointer only under a failed stream-open test, builds the ERst index outside any try block, and no function of OutputStream.cpp has a catch handler that completes normally.  An index error of an existing file (a header cut short by a crash) must propagate: treated as 'no such file' it makes openUnified start a new file over the earlier report steps", floor=3)
    osf = [f for f in fx.fns if f.get("body") and f["file"].endswith("OutputStream.cpp")]
    rd = [f for f in osf if f["n"] == "read" and "Restart" in f["q"]]
    if len(rd) != 1:
        raise core.AnalysisBroken("OutputStream.cpp: Open::Restart::read not found (%d)" % len(rd))
    rd = rd[0]
    n_try = 0
    for f in osf:
        for t in walk(f["body"]):
            if t.get("k") != "Try":
                continue
            n_try += 1
            for h in t.get("handlers") or []:
                hb = h.get("body") if isinstance(h, dict) else None
                sts = stmt_list(hb) if isinstance(hb, dict) else []
                if not sts or sts[-1]["k"] != "Throw":
                    chk.violation(r_ex, "handler:%s" % f["n"], "%s: a catch handler completes without throwing: an error while reading an existing result file is turned into a normal result" % f["q"], f["file"], t["l"])
    chk.instance(r_ex, "handlers", sample=dict(functions=len(osf), try_blocks=n_try))
    nulls = []
    for n in walk(rd["body"]):
        if n["k"] == "Return" and (n.get("e") is None or re.fullmatch(r"(std::unique_ptr<[^{}]*>)?\{\{?\}?\}|nullptr|std::unique_ptr<[^()]*>\(\)", show(strip(n["e"])).replace("Opm::EclIO::", "")) is not None):
            nulls.append(n)
    par_r = None
    from verif import cow as _cow
    par_r = _cow.parent_map(rd)
    okn = bool(nulls)
    for n in nulls:
        cur = n
        cond = None
        while id(cur) in par_r:
            cur = par_r[id(cur)]
            if cur.get("k") == "If":
                cond = cur
                break
        ct = show(strip(cond["cond"])) if cond is not None else None
        m_ = re.fullmatch(r"\(!(\w+)(\.operator bool\(\)|\.is_open\(\)|\.good\(\))?\)|(\w+)\.fail\(\)", ct or "")
        var = (m_.group(1) or m_.group(3)) if m_ else None
        dv = [v for d in walk(rd["body"]) if d["k"] == "Decl" for v in d["vars"] if v["n"] == var and re.search(r"ifstream|fstream", v.get("t") or "")]
        if not (m_ and dv):
            okn = False
            chk.violation(r_ex, "read:null", "Open::Restart::read returns the null pointer (= no such file) under `%s`; it may do so only when opening the file as a stream failed" % ct, rd["file"], n["l"])
    chk.instance(r_ex, "read:null", sample=dict(null_returns=len(nulls), under_open_test=okn))
    if not nulls:
        chk.violation(r_ex, "read:null", "Open::Restart::read no longer has a 'file cannot be opened -> null' exit", rd["file"], rd["l"])
    builds = [n for n in walk(rd["body"]) if n.get("k") in ("New", "Call", "Ctor") and "ERst" in (n.get("t") or n.get("fn") or "")]
    chk.instance(r_ex, "read:index", sample=dict(index_built=len(builds)))
    if not builds:
        chk.violation(r_ex, "read:index", "Open::Restart::read no longer builds the ERst index of the existing file", rd["file"], rd["l"])

    from verif import narrow
    narrow.run_offwidth(chk, "C08")

    from verif import fallthrough
    fallthrough.run(chk, "C08", floor=4)
    from verif import argorder
    argorder.run(chk, "C08", floor=65)

    chk.assumptions += ["header widths are joined with the writer via rules/C07.header_sums (T-agree between modules)"]
