"""C18  ACTIONX conditions and triggering limits.

Decides: AND-over-OR stratification of the condition parser (C18.strat), token guards and node types
(C18.guard), operator/token pairing in evaluation and in the tokenizer (C18.pair), union/intersection
pairing (C18.logic), the decision table of ActionX::ready (C18.ready), run bookkeeping (C18.state) and
that actions are applied only when drawn from Actions::pending and that an applied action is recorded
(C18.gate).  Not decided: evaluation against concrete summary states, wildcard matching, date arithmetic.
"""
import itertools
import re

from verif import core
from verif.tree import decast, walk, show, stmt_list, meth, strip

LEVEL = "other"
A = "opm/input/eclipse/Schedule/Action/"
UNITS = [A + "ActionParser.cpp", A + "ASTNode.cpp", A + "ActionValue.cpp", A + "ActionResult.cpp", A + "ActionX.cpp",
         A + "State.cpp", A + "Actions.cpp", "opm/input/eclipse/Schedule/Schedule.cpp", "msim/src/msim.cpp"]

LEVELS = ["parse_or", "parse_and", "parse_cmp"]
LEAVES = ["parse_left", "parse_op", "parse_right"]
CMP = {"op_gt": ">", "op_ge": ">=", "op_lt": "<", "op_le": "<=", "op_eq": "==", "op_ne": "!="}
STR_TOKEN = {"and": "op_and", "or": "op_or", "(": "open_paren", ")": "close_paren",
             ">": "op_gt", ".gt.": "op_gt", ">=": "op_ge", ".ge.": "op_ge", "<": "op_lt", ".lt.": "op_lt",
             "<=": "op_le", ".le.": "op_le", "=": "op_eq", ".eq.": "op_eq", "!=": "op_ne", ".ne.": "op_ne"}


def tokens(n):
    return {x["n"] for x in walk(n) if x["k"] == "Ref" and x.get("d") == "Enum" and "TokenType::" in (x.get("q") or "")}


def mcalls(n, names):
    return [x for x in walk(n) if x["k"] == "MCall" and x.get("m") in names]


def bool_eval(e, atom):
    """Evaluate a boolean expression tree given a valuation of atoms (atom(node) -> bool|None)."""
    e = strip(e)
    v = atom(e)
    if v is not None:
        return v
    k = e["k"]
    if k == "Bin" and e["op"] == "||":
        return bool_eval(e["c"][0], atom) or bool_eval(e["c"][1], atom)
    if k == "Bin" and e["op"] == "&&":
        return bool_eval(e["c"][0], atom) and bool_eval(e["c"][1], atom)
    if k == "Un" and e["op"] == "!":
        return not bool_eval(e["c"][0], atom)
    if k == "Bool":
        return bool(e["v"])
    raise core.AnalysisBroken("ActionX::ready: condition `%s` is not built from the known atomic predicates" % show(e))


def run_fn(body, atom):
    """Interpret a structured body consisting of if/return over boolean expressions (a decision table, not an execution
    of the program: atoms are opaque symbols)."""
    for s in stmt_list(body):
        if s["k"] == "Decl":
            continue
        if s["k"] == "If":
            if bool_eval(s["cond"], atom):
                r = run_fn(s["then"], atom)
                if r is not None:
                    return r
            elif s.get("else"):
                r = run_fn(s["else"], atom)
                if r is not None:
                    return r
            continue
        if s["k"] == "Return":
            return bool_eval(s["e"], atom)
        raise core.AnalysisBroken("ActionX::ready: unexpected statement %s" % s["k"])
    return None


def run(chk):
    fx = chk.facts(UNITS)
    P = {}
    for name in LEVELS + LEAVES + ["parse", "get_type"]:
        P[name] = fx.fn1("Opm::Action::Parser::" + name)

    # ---- C18.strat
    r_strat = chk.rule("C18.strat", "parse_or -> parse_and -> parse_cmp -> ( '(' parse_or ')' | left op right ): AND binds tighter than OR", floor=8)
    allowed = {"parse_or": {"parse_and", "parse_or"}, "parse_and": {"parse_cmp"}, "parse_cmp": {"parse_or", "parse_left", "parse_op", "parse_right"},
               "parse_left": set(), "parse_op": set(), "parse_right": set()}
    for name in LEVELS + LEAVES:
        calls = [c for c in mcalls(P[name]["body"], set(LEVELS + LEAVES))]
        for c in calls:
            ok = c["m"] in allowed[name]
            chk.instance(r_strat, "%s->%s:%d" % (name, c["m"], c["l"]), sample=dict(level=name, calls=c["m"], ok=ok))
            if not ok:
                chk.violation(r_strat, "%s->%s" % (name, c["m"]), "%s parses an operand with %s: the documented order is OR < AND < comparison" % (name, c["m"]), P[name]["file"], c["l"])
    first = {n: [c["m"] for c in mcalls(P[n]["body"], set(LEVELS + LEAVES))] for n in LEVELS}
    if not first["parse_or"] or first["parse_or"][0] != "parse_and":
        chk.violation(r_strat, "parse_or:left", "the left operand of OR is not parsed by parse_and (%s)" % first["parse_or"], P["parse_or"]["file"], P["parse_or"]["l"])
    if set(first["parse_and"]) != {"parse_cmp"} or len(first["parse_and"]) < 2:
        chk.violation(r_strat, "parse_and:operands", "both operands of AND must be parsed by parse_cmp (%s)" % first["parse_and"], P["parse_and"]["file"], P["parse_and"]["l"])
    # parenthesis guard in parse_cmp
    pc = P["parse_cmp"]
    ifs = [n for n in stmt_list(pc["body"]) if n["k"] == "If"]
    okp = False
    for iff in ifs:
        if mcalls(iff["then"], {"parse_or"}):
            closes = [n for n in walk(iff["then"]) if n["k"] == "If" and tokens(n["cond"]) == {"close_paren"}]
            okp = tokens(iff["cond"]) == {"open_paren"} and show(iff["cond"]).count("==") == 1 and bool(closes)
            els = iff.get("else")
            seq = [c["m"] for c in mcalls(els, set(LEAVES))] if els else []
            chk.instance(r_strat, "parse_cmp:paren", sample=dict(guard=sorted(tokens(iff["cond"])), close_checked=bool(closes), comparison=seq))
            if seq != ["parse_left", "parse_op", "parse_right"]:
                chk.violation(r_strat, "parse_cmp:seq", "a comparison is no longer parsed as left, operator, right (%s)" % seq, pc["file"], pc["l"])
            adds = [show(c["a"][0]) for c in mcalls(els, {"add_child"})] if els else []
            if adds != ["std::move(left_node)", "std::move(right_node)"]:
                chk.violation(r_strat, "parse_cmp:children", "comparison node children are not (left, right) in that order: %s" % adds, pc["file"], pc["l"])
    if not okp:
        chk.violation(r_strat, "parse_cmp:paren", "parse_cmp re-enters parse_or outside a checked '(' ... ')' pair", pc["file"], pc["l"])

    # ---- C18.guard
    r_guard = chk.rule("C18.guard", "each level consumes exactly its own operator token and builds a node of that type; parse() rejects trailing tokens", floor=4)
    for name, tok in (("parse_or", "op_or"), ("parse_and", "op_and")):
        fn = P[name]
        conds = [n for n in walk(fn["body"]) if n["k"] in ("If", "While") and tokens(n["cond"])]
        toks = set()
        for c in conds:
            if "error" in tokens(c["cond"]):
                continue
            toks |= tokens(c["cond"])
        nodes = [v for n in walk(fn["body"]) if n["k"] == "Decl" for v in n["vars"] if v["t"].endswith("ASTNode") and v.get("init") and tokens(v["init"])]
        ntypes = set()
        for v in nodes:
            ntypes |= tokens(v["init"])
        loops = [n for n in walk(fn["body"]) if n["k"] == "While"]
        chk.instance(r_guard, name, sample=dict(level=name, consumes=sorted(toks), builds=sorted(ntypes), loops=len(loops)))
        if toks != {tok} or ntypes != {tok} or len(loops) != 1 or not mcalls(loops[0]["body"], {"next"}):
            chk.violation(r_guard, name, "%s consumes %s and builds a node of type %s; both must be exactly %s" % (name, sorted(toks), sorted(ntypes), tok), fn["file"], fn["l"])
    po = P["parse_op"]
    ift = [n for n in stmt_list(po["body"]) if n["k"] == "If"]
    got = tokens(ift[0]["cond"]) if ift else set()
    chk.instance(r_guard, "parse_op", sample=sorted(got))
    if got != set(CMP) or "&&" in show(ift[0]["cond"]):
        chk.violation(r_guard, "parse_op", "parse_op accepts %s; the comparison operators are %s" % (sorted(got), sorted(CMP)), po["file"], po["l"])
    rets = [show(n["e"]) for n in walk(ift[0]["then"]) if n["k"] == "Return"] if ift else []
    if not rets or "curr.type" not in rets[0]:
        chk.violation(r_guard, "parse_op:type", "parse_op no longer returns a node of the consumed operator's type: %s" % rets, po["file"], po["l"])
    pp = P["parse"]
    endchk = [n for n in stmt_list(pp["body"]) if n["k"] == "If" and show(n["cond"]).replace("Opm::Action::", "") == "(curr.type != TokenType::end)" and any(x["k"] == "Throw" for x in walk(n["then"]))]
    errchk = [n for n in stmt_list(pp["body"]) if n["k"] == "If" and "TokenType::error" in show(n["cond"]) and any(x["k"] == "Throw" for x in walk(n["then"]))]
    top = [c["m"] for c in mcalls(pp["body"], set(LEVELS + LEAVES))]
    chk.instance(r_guard, "parse", sample=dict(entry=top, trailing_rejected=bool(endchk), error_rejected=bool(errchk)))
    if top != ["parse_or"] or not endchk or not errchk:
        chk.violation(r_guard, "parse", "Parser::parse must start at parse_or, throw on an error node and throw on trailing tokens", pp["file"], pp["l"])

    # ---- C18.parse: token tests, error propagation, consumption and operand order inside the recursive-descent functions
    r_prs = chk.rule("C18.parse", "inside the condition parser: (a) the result of every sub-parser is tested with `.type == error` (returning an error node) before it is used; (b) parse_and / parse_or open their node when the current token IS their operator, add the first operand before the loop and the operand parsed in each iteration inside it, consuming the operator first; (c) '(' is tested with ==, consumed before the inner parse_or, ')' is required with != and consumed; (d) a left-hand side must be an expression (else throw), a right-hand side is a number (converted with strtod, token consumed) or else must be an expression; argument lists take expressions and numbers and advance by one token per argument", floor=14)

    def tests(cond):
        """[(op, token)] of the comparisons `<x>.type ==/!= TokenType::<token>` in cond"""
        out = []
        for x in walk(cond):
            if x["k"] == "Bin" and x.get("op") in ("==", "!="):
                for y in x["c"]:
                    y = strip(y)
                    if y.get("k") == "Ref" and y.get("d") == "Enum" and "TokenType::" in (y.get("q") or ""):
                        out.append((x["op"], y["n"]))
        return out

    def returns_error(body):
        return any(r_["k"] == "Return" and "error" in tokens(r_.get("e") or {}) for r_ in walk(body))
    for name in LEVELS:
        fn = P[name]
        stl = stmt_list(fn["body"])
        subs = {}
        for n in walk(fn["body"]):
            if n["k"] == "Decl":
                for v in n["vars"]:
                    if isinstance(v.get("init"), dict) and mcalls(v["init"], set(LEVELS + LEAVES)):
                        subs[v["n"]] = (mcalls(v["init"], set(LEVELS + LEAVES))[0]["m"], n)
        for var, (callee, decl) in sorted(subs.items()):
            chks = [n for n in walk(fn["body"]) if n["k"] == "If" and tests(n["cond"]) == [("==", "error")] and any(x["k"] == "Ref" and x["n"] == var for x in walk(n["cond"])) and returns_error(n["then"])]
            in_ret = {id(y) for r_ in walk(fn["body"]) if r_["k"] == "Return" and r_.get("e") is not None for y in walk(r_["e"])}
            uses = [x["l"] for x in walk(fn["body"]) if x["k"] == "Ref" and x["n"] == var and x["l"] > decl["l"] and id(x) not in in_ret and not any(x is y for c_ in chks for y in walk(c_["cond"]))]
            key = "%s:%s<-%s" % (name, var, callee)
            # handing the result back unchanged propagates an error node to the caller's own test
            ok = (len(chks) == 1 and (not uses or min(uses) > chks[0]["l"])) or (not chks and not uses)
            chk.instance(r_prs, key, sample=dict(function=name, result=var, of=callee, error_test=len(chks)))
            if not ok:
                chk.violation(r_prs, key, "%s uses the result of %s (`%s`) without first testing `%s.type == TokenType::error` and returning an error node: a malformed sub-expression is taken for a valid operand" % (name, callee, var, var), fn["file"], decl["l"])
    for name, tok, sub in (("parse_and", "op_and", "parse_cmp"), ("parse_or", "op_or", None)):
        fn = P[name]
        opens = [n for n in stmt_list(fn["body"]) if n["k"] == "If" and tok in tokens(n["cond"])]
        ok = False
        det = {}
        if len(opens) == 1:
            iff = opens[0]
            th = stmt_list(iff["then"])
            wl = [n for n in th if n["k"] == "While"]
            pre_adds = [c_ for st in th if st["k"] != "While" for c_ in mcalls(st, {"add_child"})]
            first_var = [v["n"] for st in stmt_list(fn["body"]) if st["k"] == "Decl" for v in st["vars"] if isinstance(v.get("init"), dict) and mcalls(v["init"], set(LEVELS))][:1]
            det = dict(open_test=tests(iff["cond"]), first_operand_added=[show(c_["a"][0])[:40] for c_ in pre_adds])
            if len(wl) == 1 and tests(iff["cond"]) == [("==", tok)] and tests(wl[0]["cond"]) == [("==", tok)] and len(pre_adds) == 1 and first_var and first_var[0] in show(pre_adds[0]["a"][0]):
                wb = stmt_list(wl[0]["body"])
                nxt = [i for i, st in enumerate(wb) if mcalls(st, {"next"}) and st["k"] == "MCall"]
                par = [i for i, st in enumerate(wb) if st["k"] == "Decl" and mcalls(st, set(LEVELS))]
                add = [i for i, st in enumerate(wb) if st["k"] == "MCall" and st.get("m") == "add_child"]
                pv = [v["n"] for i in par for v in wb[i]["vars"]]
                det.update(loop=dict(next=nxt, parse=par, add=add))
                ok = len(nxt) == 1 and len(par) == 1 and len(add) == 1 and nxt[0] < par[0] < add[0] and pv and pv[0] in show(wb[add[0]]["a"][0]) \
                    and any(r_["k"] == "Return" and show(strip(r_.get("e") or {})) not in ("",) for r_ in th if r_["k"] == "Return")
        chk.instance(r_prs, name + ":node", sample=det)
        if not ok:
            chk.violation(r_prs, name + ":node", "%s must open its node when the current token is %s (tested with ==), add the first operand, and in every loop iteration consume the operator, parse the next operand, and add it (%s): operands would be dropped, duplicated or attached to the wrong operator" % (name, tok, det), fn["file"], fn["l"])
    # parentheses
    pc = P["parse_cmp"]
    par_if = [n for n in stmt_list(pc["body"]) if n["k"] == "If" and "open_paren" in tokens(n["cond"])]
    okp2 = False
    if len(par_if) == 1:
        th = stmt_list(par_if[0]["then"])
        seq = []
        for st in th:
            if st["k"] == "MCall" and st.get("m") == "next":
                seq.append("next")
            elif st["k"] == "Decl" and mcalls(st, {"parse_or"}):
                seq.append("parse_or")
            elif st["k"] == "If" and "close_paren" in tokens(st["cond"]):
                seq.append("close%s%s" % (tests(st["cond"])[0][0], ":err" if returns_error(st["then"]) else ""))
            elif st["k"] == "Return":
                seq.append("return")
        okp2 = tests(par_if[0]["cond"]) == [("==", "open_paren")] and seq == ["next", "parse_or", "close!=:err", "next", "return"]
        chk.instance(r_prs, "parse_cmp:paren", sample=dict(test=tests(par_if[0]["cond"]), sequence=seq))
    if not okp2:
        chk.violation(r_prs, "parse_cmp:paren", "parse_cmp must, on '(' (tested with ==): consume it, parse an OR-expression, require ')' (error unless it is there), consume it and return the inner expression", pc["file"], pc["l"])
    # leaves
    pl_, pr_ = P["parse_left"], P["parse_right"]
    lt = [n for n in stmt_list(pl_["body"]) if n["k"] == "If" and tokens(n["cond"])]
    okl = bool(lt) and tests(lt[0]["cond"]) == [("!=", "ecl_expr")] and any(x["k"] == "Throw" for x in walk(lt[0]["then"]))
    chk.instance(r_prs, "parse_left:expr", sample=dict(test=tests(lt[0]["cond"]) if lt else None))
    if not okl:
        chk.violation(r_prs, "parse_left:expr", "parse_left must throw unless the current token is an expression (type != ecl_expr -> throw)", pl_["file"], pl_["l"])
    rt = [n for n in stmt_list(pr_["body"]) if n["k"] == "If" and tokens(n["cond"])]
    okr2 = len(rt) >= 2 and tests(rt[0]["cond"]) == [("==", "number")] and mcalls(rt[0]["then"], {"next"}) and any("strtod" in show(r_) or "stod" in show(r_) for r_ in walk(rt[0]["then"]) if r_["k"] == "Return") \
        and tests(rt[1]["cond"]) == [("!=", "ecl_expr")] and returns_error(rt[1]["then"])
    chk.instance(r_prs, "parse_right:kinds", sample=dict(tests=[tests(n["cond"]) for n in rt]))
    if not okr2:
        chk.violation(r_prs, "parse_right:kinds", "parse_right must take a number (consume it, convert it) and otherwise require an expression (error node unless the token is one)", pr_["file"], pr_["l"])
    for fn in (pl_, pr_):
        wl = [n for n in walk(fn["body"]) if n["k"] == "While"]
        key = fn["n"] + ":args"
        ok = False
        if len(wl) == 1:
            c = strip(wl[0]["cond"])
            wb = stmt_list(wl[0]["body"])
            ok = sorted(tests(c)) == [("==", "ecl_expr"), ("==", "number")] and c.get("k") == "Bin" and c.get("op") == "||" and len(wb) == 2 \
                and wb[0]["k"] == "MCall" and wb[0].get("m") == "push_back" and "value" in show(wb[0]["a"][0]) \
                and wb[1]["k"] in ("Bin", "OpCall") and len(mcalls(wb[1], {"next"})) == 1
        chk.instance(r_prs, key, sample=dict(loop=show(wl[0]["cond"])[:100] if wl else None, ok=ok))
        if not ok:
            chk.violation(r_prs, key, "%s must collect arguments while the token is an expression OR a number, storing the token's text and advancing by one token per argument" % fn["n"], fn["file"], fn["l"])

    # ---- C18.pair
    r_pair = chk.rule("C18.pair", "token <-> operator pairing: scalarComparisonHolds, isComparisonOperator, the tokenizer and tokenString", floor=23)
    sc = [f for f in fx.fns if f["n"] == "scalarComparisonHolds" and f["file"].endswith("ActionValue.cpp")]
    if len(sc) != 1:
        raise core.AnalysisBroken("scalarComparisonHolds not found")
    cases = {}
    for n in walk(sc[0]["body"]):
        if n["k"] == "Case":
            tk = tokens(n["v"])
            sub = n["sub"]
            if sub["k"] == "Return" and len(tk) == 1:
                cases[next(iter(tk))] = show(sub["e"])
    for tk, op in CMP.items():
        got = cases.get(tk)
        chk.instance(r_pair, "cmp:" + tk, sample=dict(token=tk, evaluates=got))
        if got != "(lhs %s rhs)" % op:
            chk.violation(r_pair, "cmp:" + tk, "scalarComparisonHolds evaluates %s as %s; it must be lhs %s rhs" % (tk, got, op), sc[0]["file"], sc[0]["l"])
    if set(cases) != set(CMP):
        chk.violation(r_pair, "cmp:cases", "scalarComparisonHolds handles %s" % sorted(cases), sc[0]["file"], sc[0]["l"])
    ic = [f for f in fx.fns if f["n"] == "isComparisonOperator" and f["file"].endswith("ActionValue.cpp")]
    if len(ic) != 1:
        raise core.AnalysisBroken("isComparisonOperator not found")
    rt = [n for n in walk(ic[0]["body"]) if n["k"] == "Return"][0]["e"]
    chk.instance(r_pair, "iscmp", sample=sorted(tokens(rt)))
    if tokens(rt) != set(CMP) or "&&" in show(rt) or "!=" in show(rt):
        chk.violation(r_pair, "iscmp", "isComparisonOperator accepts %s" % sorted(tokens(rt)), ic[0]["file"], ic[0]["l"])
    # tokenizer
    gt = P["get_type"]
    got = {}
    for iff in [n for n in stmt_list(gt["body"]) if n["k"] == "If"]:
        strs = [x["v"] for x in walk(iff["cond"]) if x["k"] == "Str"]
        rs = [tokens(n["e"]) for n in walk(iff["then"]) if n["k"] == "Return"]
        negs = [x for x in walk(iff["cond"]) if (x["k"] == "Bin" and x["op"] in ("&&", "!=")) or (x["k"] == "OpCall" and x["op"] == "!=") or (x["k"] == "Un" and x["op"] == "!")]
        if strs and len(rs) == 1 and len(rs[0]) == 1 and not negs:
            for s_ in strs:
                got[s_] = next(iter(rs[0]))
    for s_, tk in STR_TOKEN.items():
        chk.instance(r_pair, "tok:" + s_, sample=dict(text=s_, token=got.get(s_)))
        if got.get(s_) != tk:
            chk.violation(r_pair, "tok:" + s_, "the tokenizer maps '%s' to %s; it denotes %s" % (s_, got.get(s_), tk), gt["file"], gt["l"])
    for s_ in got:
        if s_ not in STR_TOKEN:
            chk.violation(r_pair, "tok:" + s_, "the tokenizer recognises an undocumented spelling '%s' as %s" % (s_, got[s_]), gt["file"], gt["l"])
    low = [n for n in walk(gt["body"]) if n["k"] == "Call" and (n.get("fn") or "").endswith("tolower")]
    if not low:
        chk.violation(r_pair, "tok:case", "the tokenizer no longer lower-cases its argument: AND/OR/.GT. would not be recognised", gt["file"], gt["l"])

    # ---- C18.logic
    r_logic = chk.rule("C18.logic", "AND = intersection with initial value true, OR = union with initial value false; set operations use the std algorithm their name says", floor=8)
    ev = fx.fn1("Opm::Action::ASTNode::evalLogicalOperation")
    env = {v["n"]: v.get("init") for n in walk(ev["body"]) if n["k"] == "Decl" for v in n["vars"]}
    init = show(env.get("result")).replace("Opm::Action::", "")
    setop = strip(env.get("setOp")) if env.get("setOp") else None
    chk.instance(r_logic, "init", sample=init)
    if "(this.type == TokenType::op_and)" not in init:
        chk.violation(r_logic, "init", "the neutral element is no longer `type == op_and` (true for AND, false for OR): %s" % init, ev["file"], ev["l"])
    ok = False
    if setop and setop["k"] == "Cond":
        c, t, f = [show(x).replace("Opm::Action::", "") for x in setop["c"]]
        chk.instance(r_logic, "setop", sample=dict(cond=c, then=t, other=f))
        ok = (c == "(this.type == TokenType::op_or)" and "makeSetUnion" in t and "makeSetIntersection" in f) or \
             (c == "(this.type == TokenType::op_and)" and "makeSetIntersection" in t and "makeSetUnion" in f)
    if not ok:
        chk.violation(r_logic, "setop", "OR must select makeSetUnion and AND makeSetIntersection: %s" % (show(setop) if setop else None), ev["file"], ev["l"])
    loops = [n for n in walk(ev["body"]) if n["k"] == "ForRange"]
    if len(loops) != 1 or show(loops[0]["range"]) != "this.children":
        chk.violation(r_logic, "children", "evalLogicalOperation no longer folds over all children", ev["file"], ev["l"])
    for fnname, boolop, setfn in (("makeSetUnion", "||", "makeUnion"), ("makeSetIntersection", "&&", "makeIntersection")):
        f = fx.fn1("Opm::Action::Result::Impl::" + fnname)
        asg = [show(n) for n in stmt_list(f["body"]) if n["k"] == "Bin" and n["op"] == "="]
        calls = [c["m"] for c in mcalls(f["body"], {"makeUnion", "makeIntersection", "clear"})]
        iffs = [n for n in stmt_list(f["body"]) if n["k"] == "If"]
        guard = show(iffs[0]["cond"]) if iffs else None
        then_calls = [c["m"] for c in mcalls(iffs[0]["then"], {"makeUnion", "makeIntersection", "clear"})] if iffs else []
        else_calls = [c["m"] for c in mcalls(iffs[0].get("else") or {"k": "Block", "c": []}, {"makeUnion", "makeIntersection", "clear"})] if iffs else []
        chk.instance(r_logic, fnname + ":guard", sample=dict(guard=guard, then=then_calls, otherwise=else_calls))
        order_ok = iffs and stmt_list(f["body"]).index(iffs[0]) == 1
        # (facts are loaded with `if (!c) A else B` turned into `if (c) B else A`)
        ok_g = (guard == "(!this.result_)" and then_calls == ["clear"] and else_calls == [setfn]) or (guard == "this.result_" and then_calls == [setfn] and else_calls == ["clear"])
        if not ok_g or not order_ok:
            chk.violation(r_logic, fnname + ":guard", "Result::Impl::%s: the entity set must be cleared exactly when the combined condition value (this->result_, after the update) is false and combined with %s otherwise; found guard %s, then %s, else %s - a false sub-condition would contribute wells" % (fnname, setfn, guard, then_calls, else_calls), f["file"], f["l"])
        chk.instance(r_logic, fnname, sample=dict(assign=asg, calls=calls))
        if asg != ["(this.result_ = (this.result_ %s rhs.result_))" % boolop] or sorted(calls) != sorted(["clear", setfn]):
            chk.violation(r_logic, fnname, "Result::Impl::%s must combine the condition values with %s and the entity sets with %s: %s / %s" % (fnname, boolop, setfn, asg, calls), f["file"], f["l"])
        w = fx.fn1("Opm::Action::Result::" + fnname)
        if not any(x["k"] == "MCall" and x.get("m") == fnname and (x.get("cls") or "").endswith("Result::Impl") for x in walk(w["body"])):
            chk.violation(r_logic, fnname + ":fwd", "Result::%s no longer forwards to Impl::%s" % (fnname, fnname), w["file"], w["l"])
    # "false sub-conditions contribute no set": a cleared / empty match must be NO set, never an empty-but-present set, because
    # union and intersection treat a present set as an operand (true-scalar OR false-well-comparison would otherwise carry {})
    mimpl = [f for f in fx.fns if f["file"].endswith("ActionResult.cpp") and (f.get("cls") or "").endswith("MatchingEntities::Impl") and f.get("body")]
    clr = [f for f in mimpl if f["n"] == "clear"]
    if len(clr) != 1:
        raise core.AnalysisBroken("Result::MatchingEntities::Impl::clear not found")
    txt = show(clr[0]["body"])
    empties = [x for x in walk(clr[0]["body"]) if x["k"] in ("MCall", "Call") and meth(x)[0] == "clear"]
    resets = [x for x in walk(clr[0]["body"]) if (x["k"] in ("MCall", "Call") and meth(x)[0] == "reset") or "nullopt" in show(x)]
    chk.instance(r_logic, "noset:clear", sample=dict(body=txt[:120], empties_in_place=len(empties), resets=bool(resets)))
    if empties or not resets:
        chk.violation(r_logic, "noset:clear", "MatchingEntities::Impl::clear() empties the well set but keeps it present: a false sub-condition then still takes part in later unions/intersections as an empty set (true-scalar OR false-well-comparison yields {} and a following AND matches no wells)", clr[0]["file"], clr[0]["l"])
    for f in mimpl:
        if f["n"] == "addWells" and len(f.get("params", [])) == 1:
            first = stmt_list(f["body"])[0] if stmt_list(f["body"]) else None
            guarded = bool(first is not None and first["k"] == "If" and meth(strip(first["cond"]))[0] == "empty" and any(x["k"] == "Return" for x in walk(first["then"])))
            chk.instance(r_logic, "noset:addWells", sample=dict(returns_early_on_empty_input=guarded))
            if not guarded:
                chk.violation(r_logic, "noset:addWells", "MatchingEntities::Impl::addWells creates the well set even for an empty list of wells: a well comparison that holds for no well (a false sub-condition) then carries an empty-but-present set", f["file"], f["l"])
    for f in fx.fns:
        if f["file"].endswith("ActionResult.cpp") and f["n"] in ("makeUnion", "makeIntersection") and len(f["params"]) == 1:
            inner = [meth(x)[0] for x in walk(f["body"]) if meth(x)[0] in ("makeUnion", "makeIntersection")]
            inner += ["makeIntersection" for x in walk(f["body"]) if x["k"] == "Call" and (x.get("fn") or "").endswith("intersectWithEmptyHandling")]
            other = "makeIntersection" if f["n"] == "makeUnion" else "makeUnion"
            chk.instance(r_logic, "fwd:" + f["q"], sample=inner)
            if other in inner or not inner:
                chk.violation(r_logic, "fwd:" + f["q"], "%s forwards to %s" % (f["q"], inner), f["file"], f["l"])
    for f in fx.fns:
        if f["file"].endswith("ActionResult.cpp") and f["n"] in ("makeUnion", "makeIntersection") and len(f["params"]) == 2:
            algo = "set_union" if f["n"] == "makeUnion" else "set_intersection"
            used = [x.get("fn") or show(x.get("callee")) for x in walk(f["body"]) if x["k"] == "Call" and "set_" in ((x.get("fn") or "") + show(x.get("callee")))]
            chk.instance(r_logic, "algo:" + f["n"], sample=used)
            if not used or not all(u.endswith(algo) for u in used):
                chk.violation(r_logic, "algo:" + f["n"], "SortedVectorSet::%s uses %s instead of std::%s" % (f["n"], used, algo), f["file"], f["l"])

    # ---- C18.ready
    r_ready = chk.rule("C18.ready", "decision table of ActionX::ready over its five atomic predicates: true iff not exhausted, not before start, and (first run or no wait or waited long enough)", floor=32)
    rd = fx.fn1("Opm::Action::ActionX::ready")
    env = {v["n"]: show(v.get("init")) for n in walk(rd["body"]) if n["k"] == "Decl" for v in n["vars"]}
    if env.get("run_count") != "state.run_count((*this))":
        chk.violation(r_ready, "run_count", "run_count is no longer state.run_count(*this): %s" % env.get("run_count"), rd["file"], rd["l"])
    ATOMS = {
        "(run_count >= this.max_run())": ("A", False), "(run_count < this.max_run())": ("A", True),
        "(sim_time < this.start_time())": ("B", False), "(sim_time >= this.start_time())": ("B", True),
        "(run_count == 0)": ("C", False), "(run_count != 0)": ("C", True), "(run_count > 0)": ("C", True),
        "(this.min_wait() <= 0)": ("D", False), "(this.min_wait() > 0)": ("D", True),
        "(difftime(sim_time, state.run_time((*this))) >= this.min_wait())": ("E", False),
        "(difftime(sim_time, state.run_time((*this))) < this.min_wait())": ("E", True),
    }
    seen_atoms = set()
    # the elapsed-time atom is recognised by its structure so that a wrong reference time is a verdict, not a parse failure
    for n in walk(rd["body"]):
        if n["k"] == "Bin" and n.get("op") in (">=", "<", ">", "<="):
            l_, r_ = strip(n["c"][0]), strip(n["c"][1])
            if l_["k"] == "Call" and (l_.get("fn") or "").replace("std::", "") == "difftime" and len(l_.get("a", [])) == 2 and "min_wait" in show(r_):
                t1, t0 = show(strip(l_["a"][0])), show(strip(l_["a"][1]))
                chk.instance(r_ready, "elapsed", sample=dict(elapsed="difftime(%s, %s)" % (t1, t0), compared_with=show(r_)))
                if t1 != "sim_time" or t0 != "state.run_time((*this))":
                    chk.violation(r_ready, "elapsed", "ActionX::ready compares difftime(%s, %s) with min_wait(): the minimum wait must be measured from the action's previous run, difftime(sim_time, state.run_time(*this))" % (t1, t0), rd["file"], n["l"])
                    ATOMS[show(n).replace("std::", "").replace("0.0", "0")] = ("E", n["op"] in ("<", "<="))
    for bits in itertools.product([False, True], repeat=5):
        val = dict(zip("ABCDE", bits))

        def atom(e):
            s = show(e).replace("std::", "").replace("0.0", "0")
            if s in ATOMS:
                a, neg = ATOMS[s]
                seen_atoms.add(a)
                return (not val[a]) if neg else val[a]
            return None
        got = run_fn(rd["body"], atom)
        want = (not val["A"]) and (not val["B"]) and (val["C"] or val["D"] or val["E"])
        key = "".join("1" if val[a] else "0" for a in "ABCDE")
        chk.instance(r_ready, key, sample=dict(exhausted=val["A"], before_start=val["B"], never_ran=val["C"], no_wait=val["D"], waited=val["E"], ready=got))
        if got is None:
            raise core.AnalysisBroken("ActionX::ready: a path returns nothing")
        if got != want:
            chk.violation(r_ready, key, "ActionX::ready returns %s when run_count>=max_run is %s, sim_time<start_time is %s, run_count==0 is %s, min_wait<=0 is %s, waited>=min_wait is %s; it must return %s" % (
                got, val["A"], val["B"], val["C"], val["D"], val["E"], want), rd["file"], rd["l"])
    if seen_atoms != set("ABCDE"):
        chk.violation(r_ready, "atoms", "ActionX::ready no longer consults all of max_run, start_time, first-run, min_wait and elapsed time (uses %s)" % sorted(seen_atoms), rd["file"], rd["l"])

    # ---- C18.state
    r_state = chk.rule("C18.state", "State::add_run counts every run and stores its time; run_count/run_time read them back", floor=4)
    fh = chk.facts([A + "State.cpp"], files_re="^/repo/opm/input/eclipse/Schedule/Action/State.hpp$", fn_re="RunState")
    rs_ctor = [f for f in fh.fns if f["q"] == "Opm::Action::State::RunState::RunState" and len(f["params"]) == 1]
    rs_add = [f for f in fh.fns if f["q"] == "Opm::Action::State::RunState::add_run"]
    if len(rs_ctor) != 1 or len(rs_add) != 1:
        raise core.AnalysisBroken("State::RunState constructor / add_run not found")
    inits = {i.get("member"): show(i.get("init")) for i in rs_ctor[0].get("inits", [])}
    chk.instance(r_state, "RunState()", sample=inits)
    if inits.get("run_count") != "1" or inits.get("last_run") != "sim_time":
        chk.violation(r_state, "RunState()", "the first run must be recorded as run_count = 1, last_run = sim_time: %s" % inits, rs_ctor[0]["file"], rs_ctor[0]["l"])
    body = sorted(show(n) for n in stmt_list(rs_add[0]["body"]))
    chk.instance(r_state, "RunState::add_run", sample=body)
    if body != sorted(["(this.last_run = sim_time)", "(this.run_count += 1)"]) and body != sorted(["(this.last_run = sim_time)", "(++this.run_count)"]):
        chk.violation(r_state, "RunState::add_run", "RunState::add_run must increment run_count by one and store the run time: %s" % body, rs_add[0]["file"], rs_add[0]["l"])
    ar = [f for f in fx.fn("Opm::Action::State::add_run") if "ActionX" in f["sig"]]
    if len(ar) != 1:
        raise core.AnalysisBroken("State::add_run(ActionX,...) not found")
    txt = show(ar[0]["body"])
    emp = [c for c in mcalls(ar[0]["body"], {"emplace"}) if "run_state" in show(c.get("obj"))]
    again = [n for n in walk(ar[0]["body"]) if n["k"] == "If" and show(n["cond"]) == "(!inserted)" and mcalls(n["then"], {"add_run"})]
    chk.instance(r_state, "State::add_run", sample=dict(emplace=[show(a) for a in emp[0]["a"]] if emp else None, repeated=bool(again)))
    if len(emp) != 1 or [show(a) for a in emp[0]["a"]][1:] != ["run_time"] or not again or [show(a) for a in mcalls(again[0]["then"], {"add_run"})[0]["a"]] != ["run_time"]:
        chk.violation(r_state, "State::add_run", "State::add_run must insert (id, run_time) or, when present, call RunState::add_run(run_time) unconditionally", ar[0]["file"], ar[0]["l"])
    for nm, field in (("run_count", "run_count"), ("run_time", "last_run")):
        f = fx.fn1("Opm::Action::State::" + nm)
        t = show(f["body"])
        chk.instance(r_state, "State::" + nm, sample=t[:100])
        if "second." + field not in t or "makeID(action)" not in t:
            chk.violation(r_state, "State::" + nm, "State::%s no longer reads RunState::%s of this action" % (nm, field), f["file"], f["l"])
    # an action that has never run: count 0 / run_time throws - decided on the `find(...) == end()` test of each reader
    rcf = fx.fn1("Opm::Action::State::run_count")
    conds = [x for x in walk(rcf["body"]) if x["k"] == "Cond"]
    okn = False
    if len(conds) == 1:
        c_, a_, b_ = [strip(y) for y in conds[0]["c"]]
        never = c_.get("k") in ("Bin", "OpCall") and c_.get("op") == "==" and "end()" in show(c_)
        zero = [y for y in walk(a_) if y.get("k") == "Int"]
        okn = never and [z["v"] for z in zero] == [0] and "run_count" in show(b_)
    chk.instance(r_state, "run_count:never", sample=dict(ok=okn, expr=show(conds[0])[:100] if conds else None))
    if not okn:
        chk.violation(r_state, "run_count:never", "State::run_count must answer 0 for an action without a run record (find == end) and the stored count otherwise; found %s: an action that never ran counts against its maximum (or one that ran does not)" % (show(conds[0])[:100] if conds else "no conditional"), rcf["file"], rcf["l"])
    rtf = fx.fn1("Opm::Action::State::run_time")
    thr = [n for n in stmt_list(rtf["body"]) if n["k"] == "If" and any(x["k"] == "Throw" for x in walk(n["then"]))]
    okt = len(thr) == 1 and strip(thr[0]["cond"]).get("op") == "==" and "end()" in show(thr[0]["cond"])
    chk.instance(r_state, "run_time:never", sample=dict(ok=okt))
    if not okt:
        chk.violation(r_state, "run_time:never", "State::run_time must throw exactly when the action has no run record (find == end)", rtf["file"], rtf["l"])

    # ---- C18.gate
    r_gate = chk.rule("C18.gate", "Actions::pending filters by ready(); ACTIONX objects are evaluated/applied only when drawn from pending(), and an applied action is recorded with State::add_run", floor=2)
    pend = fx.fn1("Opm::Action::Actions::pending")
    loops = [n for n in walk(pend["body"]) if n["k"] == "ForRange"]
    okp = len(loops) == 1 and show(loops[0]["range"]) == "this.actions"
    if okp:
        b = stmt_list(loops[0]["body"])
        okp = len(b) == 1 and b[0]["k"] == "If" and show(b[0]["cond"]) == "action.ready(state, sim_time)" and len(mcalls(b[0]["then"], {"push_back"})) == 1 and not b[0].get("else")
        okp = okp and not mcalls([x for x in stmt_list(pend["body"]) if x is not loops[0]][0] if False else {"k": "Block", "c": [x for x in stmt_list(pend["body"]) if x is not loops[0]]}, {"push_back"})
    chk.instance(r_gate, "pending", sample=show(pend["body"])[:160])
    if not okp:
        chk.violation(r_gate, "pending", "Actions::pending must return exactly the actions for which ready(state, sim_time) holds", pend["file"], pend["l"])
    # call sites that apply an ActionX object
    for f in fx.fns:
        if f["q"].startswith("Opm::Schedule::applyAction"):
            continue
        for c in walk(f.get("body") or {}):
            if c["k"] == "MCall" and c.get("fn") == "Opm::Schedule::applyAction" and len(c.get("a", [])) == 4:
                # find the enclosing range-for over pending()
                encl = [lp for lp in walk(f["body"]) if lp["k"] == "ForRange" and any(x is c for x in walk(lp["body"]))]
                from_pending = any(mcalls(lp["range"], {"pending"}) for lp in encl)
                key = "%s:%d" % (f["q"], c["l"])
                recorded = any(mcalls(lp["body"], {"add_run"}) for lp in encl)
                chk.instance(r_gate, key, sample=dict(function=f["q"], from_pending=from_pending, recorded=recorded))
                if f["q"] == "Opm::Schedule::applyPyAction" or f["q"].endswith("clear_event") or not encl:
                    # python / by-name application: not subject to ACTIONX triggering limits (documented in DESIGN.md)
                    continue
                if not from_pending:
                    chk.violation(r_gate, key + ":pending", "%s applies an ACTIONX that was not drawn from Actions::pending (max_run/min_wait/start not honoured)" % f["q"], f["file"], c["l"])
                if not recorded:
                    chk.violation(r_gate, key + ":record", "%s applies pending ACTIONX objects but never records the run with State::add_run: max_run and min_wait cannot take effect" % f["q"], f["file"], c["l"])
    ec = fx.fn1("Opm::Action::ASTNode::evalComparison")
    # ---- C18.eval: how a condition tree is evaluated
    r_evl = chk.rule("C18.eval", "ASTNode::eval sends exactly the op_or and op_and nodes to the logical fold and every other inner node to the comparison; the fold applies the selected set operation to the evaluation of EVERY child, starting from the neutral result, and returns it; a comparison compares the value of the first child (left-hand side) with the value of the second child using the node's own operator", floor=3)
    ev0 = fx.fn1("Opm::Action::ASTNode::eval")
    disp = [n for n in stmt_list(ev0["body"]) if n["k"] == "If" and any(x["k"] == "MCall" and x.get("m") == "evalLogicalOperation" for x in walk(n["then"]))]
    rets0 = [n for n in stmt_list(ev0["body"]) if n["k"] == "Return" and n.get("e") is not None]
    okd = False
    if len(disp) == 1:
        c = strip(disp[0]["cond"])
        toks = sorted(x["n"] for x in walk(c) if x["k"] == "Ref" and x.get("d") == "Enum")
        okd = c.get("k") == "Bin" and c.get("op") == "||" and toks == ["op_and", "op_or"] and all(strip(y).get("k") == "Bin" and strip(y).get("op") == "==" for y in c["c"]) \
            and any(x["k"] == "MCall" and x.get("m") == "evalComparison" for r_ in rets0 for x in walk(r_["e"]))
    chk.instance(r_evl, "dispatch", sample=dict(condition=show(disp[0]["cond"])[:120] if disp else None, ok=okd))
    if not okd:
        chk.violation(r_evl, "dispatch", "ASTNode::eval no longer sends exactly the nodes of type op_or or op_and to evalLogicalOperation and the rest to evalComparison (%s): AND/OR nodes are compared as if they were comparisons, or comparisons folded as if they had operands" % (show(disp[0]["cond"])[:120] if disp else "no dispatch found"), ev0["file"], ev0["l"])
    ev = fx.fn1("Opm::Action::ASTNode::evalLogicalOperation")
    loops_ = [n for n in walk(ev["body"]) if n["k"] == "ForRange"]
    lp = loops_[0] if len(loops_) == 1 else None
    folds = []
    if lp is not None:
        lvn = lp["var"]["n"]
        for st in stmt_list(lp["body"]):
            cal = strip(st.get("callee") or {}) if st["k"] in ("MCall", "Call") else {}
            if cal.get("k") == "Bin" and cal.get("op") in (".*", "->*"):
                obj, ptr = strip(cal["c"][0]).get("n"), strip(cal["c"][1]).get("n")
                arg = st["a"][0] if st.get("a") else None
                inner = strip(arg) if arg is not None else {}
                child_eval = inner.get("k") == "MCall" and inner.get("m") == "eval" and strip(inner.get("obj") or {}).get("n") == lvn
                folds.append((obj, ptr, child_eval))
    rets1 = [show(strip(r_["e"])) for r_ in walk(ev["body"]) if r_["k"] == "Return" and r_.get("e") is not None]
    okf = len(folds) == 1 and folds[0] == ("result", "setOp", True) and rets1 == ["result"] and lp is not None and len(stmt_list(lp["body"])) == 1
    chk.instance(r_evl, "fold", sample=dict(fold=folds, returns=rets1))
    if not okf:
        chk.violation(r_evl, "fold", "evalLogicalOperation must, for every child, apply the selected set operation to child.eval(context) on the running result and return that result (found %s, returns %s): children would be skipped or evaluated without effect" % (folds, rets1), ev["file"], lp["l"] if lp is not None else ev["l"])
    rc_ = [strip(r_["e"]) for r_ in stmt_list(ec["body"]) if r_["k"] == "Return" and r_.get("e") is not None]
    okc = False
    txt = None
    if len(rc_) == 1:
        txt = show(rc_[0])
        m_c = re.fullmatch(r"this\.children(?:\.front\(\)|\[0\])\.nodeValue\(context\)\.eval_cmp\(this\.type, (\w+)\)", txt)
        if m_c:
            v2 = m_c.group(1)
            asg2 = [show(decast(x["c"][1] if x["k"] == "Bin" else x["a"][1])) for x in walk(ec["body"]) if ((x["k"] == "Bin" and x.get("asg")) or (x["k"] == "OpCall" and x.get("op") == "=")) and show(strip((x.get("c") or x.get("a"))[0])) == v2]
            plain = [t for t in asg2 if "?" not in t]
            okc = plain == ["this.children[1].nodeValue(context)"] and all("this.children[1]" in t or "rhs" in t for t in asg2)
            rhs_decl = [show(v.get("init")) for n in walk(ec["body"]) if n["k"] == "Decl" for v in n["vars"] if v["n"] == "rhs"]
            okc = okc and rhs_decl in ([], ["this.children[1]"])
    chk.instance(r_evl, "comparison", sample=dict(returns=txt, ok=okc))
    if not okc:
        chk.violation(r_evl, "comparison", "evalComparison must return children.front().nodeValue(context).eval_cmp(this->type, <value of children[1]>); found %s: the comparison uses another operand or operator than the condition names" % txt, ec["file"], ec["l"])

    # ---- C18.functype: which quantities are per-well
    r_ft = chk.rule("C18.functype", "Parser::get_func classifies the left-hand side by the category of its summary keyword - Well -> well, Group -> group, Connection -> well_connection, Segment -> well_segment, Region -> region, Block -> block, Aquifer -> aquifer - and ASTNode lets only func_type == well contribute a set of matching wells: a group, field or region comparison is a scalar sub-condition", floor=7)
    gf = fx.fn1("Opm::Action::Parser::get_func")
    WANT_FT = {"Aquifer": "aquifer", "Well": "well", "Group": "group", "Connection": "well_connection", "Region": "region", "Block": "block", "Segment": "well_segment"}
    sw = [n for n in walk(gf["body"]) if n["k"] == "Switch"]
    if len(sw) != 1:
        raise core.AnalysisBroken("Parser::get_func: switch over the keyword category not found")
    got_ft = {}
    for c in walk(sw[0]):
        if c["k"] == "Case":
            lab = [x["n"] for x in walk(c["v"]) if x["k"] == "Ref" and x.get("d") == "Enum"]
            ret = [x["n"] for r_ in walk(c["sub"]) if r_["k"] == "Return" for x in walk(r_.get("e") or {}) if x["k"] == "Ref" and x.get("d") == "Enum"]
            if lab:
                got_ft[lab[0]] = (ret[0] if ret else None, c["l"])
    for cat, want in WANT_FT.items():
        g = got_ft.get(cat)
        chk.instance(r_ft, cat, sample=dict(category=cat, func_type=g[0] if g else None))
        if not g or g[0] != want:
            chk.violation(r_ft, cat, "Parser::get_func maps the keyword category %s to FuncType::%s (expected %s): %s" % (cat, g[0] if g else "nothing", want, "a true comparison on such a quantity would contribute its entity names to the set of matching WELLS" if g and g[0] == "well" else "well-level comparisons of this kind would no longer select wells / would be treated as another kind"), gf["file"], g[1] if g else gf["l"])
    extra_well = [cat for cat, (ft, ln) in got_ft.items() if ft == "well" and cat != "Well"]
    if extra_well:
        chk.violation(r_ft, "well-only", "categories %s are classified as per-well quantities" % extra_well, gf["file"], gf["l"])

    # ---- C18.sorted: the matching-well set is a sorted vector; the std set algorithms need it sorted and unique
    r_so = chk.rule("C18.sorted", "MatchingEntities keeps its wells in a sorted vector and combines sets with std::set_union / std::set_intersection / binary_search, which require sorted input: every function that inserts into the set commits (sort + unique) before it returns; commit sorts, removes duplicates up to the end and installs the result; the intersection with empty handling leaves the set alone when the other side has none, adopts the other side when it has none itself and intersects otherwise", floor=4)
    from verif.tree import escapes_without
    impl_fns = [f for f in fx.fns if f["file"].endswith("ActionResult.cpp") and (f.get("cls") or "").endswith("MatchingEntities::Impl") and f.get("body")]
    n_ins = 0
    for f in impl_fns:
        ins = [n for n in walk(f["body"]) if n["k"] == "MCall" and n.get("m") == "insert" and "wells_" in show(n.get("obj") or {})]
        for n in ins:
            n_ins += 1
            bad = escapes_without(f["body"], n, lambda s_: s_.get("k") == "MCall" and s_.get("m") == "commit" and "wells_" in show(s_.get("obj") or {}))
            key = "insert:%s" % f["n"]
            chk.instance(r_so, key, sample=dict(function=f["q"], committed_on_every_path=not bad))
            if bad:
                chk.violation(r_so, key, "%s inserts into the well set and can return without commit(): the vector is then unsorted / holds duplicates while hasWell (binary_search), AND (set_intersection) and OR (set_union) assume a sorted unique range - wells are missed or reported twice" % f["q"], f["file"], n["l"])
    if not n_ins:
        raise core.AnalysisBroken("MatchingEntities::Impl: no insertion into the well set found")
    cm = [f for f in fx.fns if f["file"].endswith("ActionResult.cpp") and f["n"] == "commit" and f.get("body") and len(f.get("params") or []) == 2]
    if len(cm) != 1:
        raise core.AnalysisBroken("SortedVectorSet::commit(cmp, eq) not found (%d)" % len(cm))
    cm = cm[0]
    order = []
    uvar = None
    for n in walk(cm["body"]):
        if n["k"] == "Call":
            nm_ = (n.get("fn") or (n.get("callee") or {}).get("n") or "").split("::")[-1].split("<")[0]
            if nm_ in ("sort", "stable_sort", "unique", "transform"):
                order.append((nm_, n["l"]))
        m_, o_ = meth(n)
        if m_ == "erase" and n.get("a") and len(n["a"]) == 2:
            order.append(("erase(%s,%s)" % (show(strip(n["a"][0])), show(strip(n["a"][1])).replace(" ", "")), n["l"]))
        if m_ == "swap":
            order.append(("swap", n["l"]))
        if n["k"] == "Decl":
            for v in n["vars"]:
                if isinstance(v.get("init"), dict) and any(x["k"] == "Call" and (x.get("fn") or (x.get("callee") or {}).get("n") or "").split("::")[-1].startswith("unique") for x in walk(v["init"])):
                    uvar = v["n"]
    names_o = [o[0] for o in sorted(order, key=lambda t: t[1])]
    want_o = ["sort", "unique", "erase(%s,i.end())" % uvar, "transform", "swap"]
    chk.instance(r_so, "commit", sample=dict(steps=names_o))
    if [x for x in names_o if not x.startswith("erase")] != ["sort", "unique", "transform", "swap"] or not any(x.startswith("erase(%s," % uvar) and x.endswith(".end())") for x in names_o) or names_o.index([x for x in names_o if x.startswith("erase")][0]) != 2:
        chk.violation(r_so, "commit", "SortedVectorSet::commit must sort, find the unique prefix, erase from there to the END, move the survivors over and install them (found %s): duplicates or an unsorted tail survive and the set algorithms give wrong unions / intersections" % names_o, cm["file"], cm["l"])
    ie = [f for f in fx.fns if f["file"].endswith("ActionResult.cpp") and f["n"] == "intersectWithEmptyHandling" and f.get("body")]
    if len(ie) != 1:
        raise core.AnalysisBroken("intersectWithEmptyHandling not found")
    ie = ie[0]
    po, pc_ = ie["params"][0]["n"], ie["params"][1]["n"]
    st_ = stmt_list(ie["body"])
    oke = False
    if len(st_) == 2 and all(x["k"] == "If" for x in st_):
        c0 = show(strip(st_[0]["cond"])).replace(" ", "")
        c1 = show(strip(st_[1]["cond"])).replace(" ", "")
        t0 = [x["k"] for x in stmt_list(st_[0]["then"])]
        t1 = [show(x).replace(" ", "") for x in stmt_list(st_[1]["then"])]
        e1 = [show(x).replace(" ", "") for x in stmt_list(st_[1].get("else"))] if st_[1].get("else") is not None else []
        if c1 == "%s.has_value()" % pc_:
            # canonical orientation of `if (!curr.has_value()) adopt else intersect`
            c1, t1, e1 = "(!%s.has_value())" % pc_, e1, t1
        oke = c0 == "(!%s.has_value())" % po and t0 == ["Return"] and st_[0].get("else") is None and c1 == "(!%s.has_value())" % pc_ and t1 == ["(%s=%s)" % (pc_, po)] \
            and len(e1) == 1 and re.fullmatch(r"(\(->%s\)|%s)\.makeIntersection\(\(\*%s\)\)" % (pc_, pc_, po), e1[0]) is not None
        det_e = dict(first=c0, second=c1, adopt=t1, otherwise=e1)
    else:
        det_e = dict(statements=[x["k"] for x in st_])
    chk.instance(r_so, "intersect-empty", sample=det_e)
    if not oke:
        chk.violation(r_so, "intersect-empty", "intersectWithEmptyHandling(other, curr) must return when `other` has no set, adopt `other` when `curr` has none, and intersect otherwise (found %s): a scalar sub-condition would wipe or fail to restrict the set of matching wells" % det_e, ie["file"], ie["l"])

    # the set algebra itself: inputs are the two element vectors, the result is installed
    for nm_, algo in (("makeIntersection", "set_intersection"), ("makeUnion", "set_union")):
        mf = [f for f in fx.fns if f["file"].endswith("ActionResult.cpp") and f["n"] == nm_ and f.get("body") and "SortedVectorSet" in (f.get("cls") or f["q"]) and any(x["k"] == "Call" and ((x.get("fn") or "") + ((x.get("callee") or {}).get("n") or "")).endswith(algo) for x in walk(f["body"]))]
        if len(mf) != 1:
            raise core.AnalysisBroken("SortedVectorSet::%s not found (%d)" % (nm_, len(mf)))
        mf = mf[0]
        rp_ = mf["params"][0]["n"]
        calls_ = [n for n in walk(mf["body"]) if n["k"] == "Call" and ((n.get("fn") or "") + ((n.get("callee") or {}).get("n") or "")).endswith(algo)]
        oks = False
        det_s = {}
        if len(calls_) == 1 and len(calls_[0].get("a") or []) >= 5:
            a_ = [show(x) for x in calls_[0]["a"][:5]]
            outv = re.fullmatch(r"std::back_inserter\((\w+)\)", a_[4])
            installs = [show(x) for x in stmt_list(mf["body"]) if x["k"] in ("MCall", "Call", "Bin", "OpCall") and x is not calls_[0] and re.match(r"\(?this\.elems_\b", show(x)) and outv and outv.group(1) in show(x)]
            det_s = dict(inputs=a_[:4], output=a_[4], installs=installs)
            oks = (a_[:4] == ["this.elems_.begin()", "this.elems_.end()", "%s.elems_.begin()" % rp_, "%s.elems_.end()" % rp_] and outv is not None
                   and installs in (["this.elems_.swap(%s)" % outv.group(1)], ["(this.elems_ = std::move(%s))" % outv.group(1)], ["(this.elems_ = %s)" % outv.group(1)]))
        chk.instance(r_so, nm_, sample=det_s)
        if not oks:
            chk.violation(r_so, nm_, "SortedVectorSet::%s must run std::%s over this set and the other set into a fresh vector and install that vector as the new content (found %s): otherwise AND / OR of two well conditions leaves the left set unchanged" % (nm_, algo, det_s), mf["file"], mf["l"])
    for f in [f for f in fx.fns if f["file"].endswith("ActionResult.cpp") and f["n"] == "insert" and f.get("body") and "SortedVectorSet" in (f.get("cls") or f["q"])]:
        t_ = [show(x) for x in stmt_list(f["body"])]
        pn_ = [p_["n"] for p_ in f["params"]]
        okI = len(t_) == 1 and t_[0].startswith("this.elems_.") and all(p_ in t_[0] for p_ in pn_) and re.match(r"this\.elems_\.(push_back|emplace_back|insert)\(", t_[0]) is not None
        chk.instance(r_so, "insert/%d@%d" % (len(pn_), f["l"]), sample=dict(body=t_))
        if not okI:
            chk.violation(r_so, "insert/%d@%d" % (len(pn_), f["l"]), "SortedVectorSet::insert(%s) does %s; it appends its argument(s) to the element vector" % (", ".join(pn_), t_), f["file"], f["l"])

    # ---- C18.month: numeric month indices
    r_mo = chk.rule("C18.month", "a MNTH comparison with a numeric right-hand side compares with the NEAREST integer month (the documented rule: MNTH = 10.8 holds in November): the number goes through a round-to-nearest function, not through a truncating conversion", floor=1)
    month_ifs = [n for n in walk(ec["body"]) if n["k"] == "If" and isinstance(n.get("cond"), dict) and any(x.get("k") == "Ref" and x.get("n") == "time_month" for x in walk(n["cond"]))]
    if len(month_ifs) != 1:
        raise core.AnalysisBroken("evalComparison: the MNTH special case was not found")
    conv = []
    for x in walk(month_ifs[0]["then"]):
        if x["k"] == "Cond":
            num_arm = x["c"][1] if any(y.get("k") == "Ref" and y.get("n") == "number" and y.get("d") == "Enum" for y in walk(x["c"][0])) else None
            if num_arm is not None:
                calls = [(y.get("fn") or "").split("::")[-1] for y in walk(num_arm) if y["k"] == "Call"]
                casts = [y.get("t") for y in walk(num_arm) if y["k"] == "Cast" and (y.get("t") or "") in ("int", "long", "std::size_t", "unsigned int", "long long")]
                conv.append((calls, casts, x["l"], show(num_arm)[:80]))
    if len(conv) != 1:
        raise core.AnalysisBroken("evalComparison: the numeric arm of the MNTH special case was not recognised (%d candidates)" % len(conv))
    calls, casts, ln, txt = conv[0]
    chk.instance(r_mo, "rhs", sample=dict(expression=txt, calls=calls, integer_casts=casts))
    if not (set(calls) & {"round", "lround", "llround", "nearbyint", "rint"}) or casts or (set(calls) & {"floor", "trunc", "ceil"}):
        chk.violation(r_mo, "rhs", "evalComparison converts the numeric right-hand side of a MNTH comparison with `%s`: that is not rounding to the nearest integer, so MNTH = 10.8 holds in October instead of November (and every ordering comparison shifts by one month for fractions >= .5)" % txt, ec["file"], ln)

    # ---- C18.wellcmp: a comparison of a well quantity
    r_wc = chk.rule("C18.wellcmp", "ActionValue.cpp: Value::add_well records the (well, value) pair; eval_cmp compares a scalar as scalarComparisonHolds(this value, op, right-hand scalar) - left and right not exchanged - and hands a well quantity to evalWellComparisons, which visits every recorded pair, keeps the WELL NAME OF THE PAIR whose value satisfies the comparison, and returns the condition true exactly when that list is not empty, with the list as matching wells", floor=3)
    vx18 = chk.facts(["opm/input/eclipse/Schedule/Action/ActionValue.cpp"])

    def one18(nm):
        c = [f for f in vx18.fns if f["n"] == nm and f.get("body") and (f.get("cls") or "").endswith("Action::Value")]
        if len(c) != 1:
            raise core.AnalysisBroken("Action::Value::%s: %d definitions" % (nm, len(c)))
        return c[0]
    aw = one18("add_well")
    wn, wv = [p_["n"] for p_ in aw["params"]]
    adds = [show(x) for x in walk(aw["body"]) if x["k"] == "MCall" and x.get("m") in ("emplace_back", "push_back") and "well_values_" in show(x.get("obj"))]
    chk.instance(r_wc, "add_well", sample=dict(appends=adds))
    if adds != ["this.well_values_.emplace_back(%s, %s)" % (wn, wv)] and adds != ["this.well_values_.push_back({%s, %s})" % (wn, wv)]:
        chk.violation(r_wc, "add_well", "Value::add_well does %s; it records the pair (well, value) - otherwise the comparison runs over fewer wells than the condition names" % adds, aw["file"], aw["l"])
    ec = one18("eval_cmp")
    opn, rhn = [p_["n"] for p_ in ec["params"]]
    etxt = show(ec["body"]).replace("Opm::Action::(anonymous namespace)::", "").replace("(anonymous namespace)::", "")
    ok_s = "scalarComparisonHolds(this.scalar(), %s, %s.scalar())" % (opn, rhn) in etxt
    ok_w = "return this.evalWellComparisons(%s, %s.scalar());" % (opn, rhn) in etxt
    chk.instance(r_wc, "eval_cmp", sample=dict(scalar_form=ok_s, well_form=ok_w))
    if not (ok_s and ok_w):
        chk.violation(r_wc, "eval_cmp", "Value::eval_cmp no longer evaluates scalarComparisonHolds(this value, op, rhs) for scalars and evalWellComparisons(op, rhs) for well quantities (operands in this order): %s" % etxt[-400:], ec["file"], ec["l"])
    ew = one18("evalWellComparisons")
    opn2, rhn2 = [p_["n"] for p_ in ew["params"]]
    loops = [n for n in stmt_list(ew["body"]) if n["k"] == "ForRange" and show(strip(n["range"])) == "this.well_values_"]
    okl = False
    det = show(ew["body"])[:400]
    if len(loops) == 1:
        lb = stmt_list(loops[0]["body"])
        lst = [v["n"] for n in stmt_list(ew["body"]) if n["k"] == "Decl" for v in n["vars"] if "vector" in (v.get("t") or "")]
        bt = show(loops[0]["body"]).replace("Opm::Action::(anonymous namespace)::", "").replace("(anonymous namespace)::", "")
        m = re.search(r"if \(scalarComparisonHolds\((\w+), %s, %s\)\) \{ (\w+)\.push_back\((\w+)\) \}" % (opn2, rhn2), bt)
        rets = [show(x["e"]) for x in stmt_list(ew["body"]) if x["k"] == "Return"]
        if m and len(lst) == 1 and m.group(2) == lst[0] and m.group(1) != m.group(3) and len(lb) == 1:
            okl = rets == ["Opm::Action::Result{(!%s.empty())}.wells(%s)" % (lst[0], lst[0])] or rets == ["Result{(!%s.empty())}.wells(%s)" % (lst[0], lst[0])]
            det = dict(loop=bt[:200], returns=rets)
    chk.instance(r_wc, "evalWellComparisons", sample=dict(found=det))
    if not okl:
        chk.violation(r_wc, "evalWellComparisons", "Value::evalWellComparisons: every recorded (well, value) pair must be tested with scalarComparisonHolds(value, op, rhs), the well of a satisfying pair kept, and the result be Result{!list.empty()}.wells(list); found %s" % det, ew["file"], ew["l"])

    # ---- C18.leaf: what a leaf of the condition tree evaluates to (decision tables, verif/dtable.py)
    r_lf = chk.rule("C18.leaf", "ASTNode.cpp, decision tables of the evaluation dispatch: eval throws on a leaf, combines children for AND / OR and compares otherwise; evalComparison compares children.front() with children[1] (left operand on the left), rounding a numeric right-hand side only when the left is MNTH; nodeValue gives the number, the plain summary value, the per-well list for a single pattern argument and the keyed scalar otherwise; a list expression exists only for well quantities; a keyed well scalar carries its well name; evalWellExpression asks the context for every well of getWellList under that well's name; getWellList takes a '*NAME' argument from the well-list manager and otherwise filters the context's wells with shmatch on the pattern (one leading backslash removed); a pattern is a single argument containing '*', a well list a '*' followed by at least one character", floor=10)
    from verif import dtable
    ax18 = chk.facts([A + "ASTNode.cpp"])

    def node_fn(nm, cls=True):
        c = [f for f in ax18.fns if f["n"] == nm and f.get("body") and f["file"].endswith("ASTNode.cpp") and (not cls or (f.get("cls") or "").endswith("Action::ASTNode"))]
        if len(c) != 1:
            raise core.AnalysisBroken("ASTNode.cpp: %d definitions of %s" % (len(c), nm))
        return c[0]

    def leaf_table(nm, atoms, want, boolean=False, opaque=(), ignore=None, cls=True, why=""):
        f = node_fn(nm, cls)
        ctxn = f["params"][0]["n"] if f["params"] else None
        try:
            got = dtable.table(f, boolean=boolean, opaque=opaque, ignore=ignore)
        except dtable.NotATable as e_:
            chk.instance(r_lf, nm, sample=dict(not_a_table=str(e_)))
            chk.violation(r_lf, nm, "%s is no longer a dispatch over its conditions (%s): %s" % (f["q"], e_, why), f["file"], f["l"])
            return f
        if ctxn:
            rn_ = lambda t_: re.sub(r"(?<![\w.:])%s\b" % re.escape(ctxn), "CTX", t_) if isinstance(t_, str) else t_
            pairs_ = sorted(zip([rn_(a_) for a_ in got[0]], range(len(got[0]))))
            got = ([a_ for a_, _ in pairs_], {tuple(k_[i_] for _, i_ in pairs_): rn_(v_) for k_, v_ in got[1].items()})
        diffs = dtable.same_table(got, atoms, want)
        chk.instance(r_lf, nm, sample=dict(atoms=got[0], outcomes=sorted({str(v_) for v_ in got[1].values()})))
        if diffs:
            chk.violation(r_lf, nm, "%s: %s; %s" % (f["q"], "; ".join(diffs[:3]), why), f["file"], f["l"])
        return f

    T_OR, T_AND, T_LEAF = "this.type == TokenType::op_or", "this.type == TokenType::op_and", "this.empty()"
    leaf_table("eval", [T_LEAF, T_AND, T_OR],
               lambda v: "throw" if v[T_LEAF] else "this.evalLogicalOperation(CTX)" if (v[T_AND] or v[T_OR]) else "this.evalComparison(CTX)",
               why="an AND / OR node combines its children, any other inner node is a comparison")
    T_MN, T_NUM1 = "this.children.front().func_type == FuncType::time_month", "this.children[1].type == TokenType::number"
    CMPF = "this.children.front().nodeValue(CTX).eval_cmp(this.type, %s)"
    leaf_table("evalComparison", [T_MN, T_NUM1],
               lambda v: [CMPF % "Value{round(this.children[1].number)}", CMPF % "Value{std::round(this.children[1].number)}"] if (v[T_MN] and v[T_NUM1]) else CMPF % "this.children[1].nodeValue(CTX)",
               why="the left child is compared, with this node's operator, against the right child; only MNTH against a number is rounded")
    T_NUM, T_NOARG, T_PAT = "this.type == TokenType::number", "this.arg_list.empty()", "this.argListIsPattern()"
    leaf_table("nodeValue", [T_LEAF, T_NUM, T_NOARG, T_PAT],
               lambda v: "throw" if not v[T_LEAF] else "Value{this.number}" if v[T_NUM] else "Value{CTX.get(this.func)}" if v[T_NOARG]
               else "this.evalListExpression(CTX)" if v[T_PAT] else "this.evalScalarExpression(CTX)",
               why="number -> literal; no argument -> field level value; one pattern argument -> per-well list; otherwise keyed scalar")
    T_WELL = "this.func_type == FuncType::well"
    leaf_table("evalListExpression", [T_WELL], lambda v: "this.evalWellExpression(CTX)" if v[T_WELL] else "throw",
               why="a pattern argument is meaningful for well quantities only")
    sf = leaf_table("evalScalarExpression", [T_WELL], lambda v: "Value{this.arg_list.front(), CTX.get(this.func, arg_key)}" if v[T_WELL] else "Value{CTX.get(this.func, arg_key)}",
                    opaque=("arg_key",), why="a well quantity with a plain well name keeps the name, so that the well enters the matching set")
    keyd = [show(v["init"]) for n in stmt_list(sf["body"]) if n["k"] == "Decl" for v in n["vars"] if v["n"] == "arg_key" and isinstance(v.get("init"), dict)]
    ok_key = len(keyd) == 1 and re.search(r'\{"\{\}"\}, fmt::join\(this\.arg_list, (fmt::string_view\{)?":"\}?\)\)$', keyd[0]) is not None
    chk.instance(r_lf, "arg_key", sample=dict(init=keyd))
    if not ok_key:
        chk.violation(r_lf, "arg_key", "evalScalarExpression: the summary key is the argument list joined with ':' (found %s)" % keyd, sf["file"], sf["l"])
    # evalWellExpression
    wf = node_fn("evalWellExpression")
    cx = wf["params"][0]["n"]
    wst = stmt_list(wf["body"])
    okw = False
    detw = [show(x)[:200] for x in wst]
    if len(wst) == 3 and wst[0]["k"] == "Decl" and wst[1]["k"] == "ForRange" and wst[2]["k"] == "Return":
        acc = wst[0]["vars"][0]["n"]
        it = wst[1]["var"]["n"]
        lb = [dtable.norm(show(x)) for x in stmt_list(wst[1]["body"])]
        okw = (dtable.norm(show(strip(wst[1]["range"]))) == "this.getWellList(%s)" % cx and lb == ["%s.add_well(%s, %s.get(this.func, %s))" % (acc, it, cx, it)]
               and show(strip(wst[2]["e"])) == acc and dtable.norm(show(wst[0]["vars"][0].get("init") or {})) in ("Value{}", "Value()"))
    chk.instance(r_lf, "evalWellExpression", sample=dict(body=detw))
    if not okw:
        chk.violation(r_lf, "evalWellExpression", "evalWellExpression must add, for every well W of getWellList(context), the pair (W, context.get(func, W)) to a fresh Value and return it (found %s)" % detw, wf["file"], wf["l"])
    # getWellList
    gw = node_fn("getWellList")
    cx = gw["params"][0]["n"]
    T_WL = "this.argListIsWellList()"
    is_fill = lambda s_: (s_["k"] == "MCall" and s_.get("m") == "reserve") or (s_["k"] == "Call" and (s_.get("fn") or "").endswith("copy_if"))
    leaf_table("getWellList", [T_WL], lambda v: "CTX.wlist_manager().wells(this.arg_list.front())" if v[T_WL] else "wnames", opaque=("wnames", "wells"), ignore=is_fill,
               why="'*NAME' names a well list (WLIST); anything else is a well-name pattern")
    cps = [n for n in stmt_list(gw["body"]) if n["k"] == "Call" and (n.get("fn") or "").endswith("copy_if")]
    decl18 = {v["n"]: dtable.norm(show(v["init"])) for n in stmt_list(gw["body"]) if n["k"] == "Decl" for v in n["vars"] if isinstance(v.get("init"), dict)}
    okc = False
    detc = dict(decls=decl18, copies=[show(x)[:200] for x in cps])
    if len(cps) == 1 and len(cps[0]["a"]) == 4 and strip(cps[0]["a"][3]).get("k") == "Lambda":
        lam = strip(cps[0]["a"][3])
        a3 = [dtable.norm(show(strip(x))) for x in cps[0]["a"][:3]]
        m_out = re.fullmatch(r"std::back_inserter\((\w+)\)", a3[2])
        m_in = re.fullmatch(r"(\w+)\.begin\(\)", a3[0])
        capi = [dtable.norm(show(x)) for x in lam.get("capinits") or []]
        lbody = [dtable.norm(show(x)) for x in stmt_list(lam["body"])]
        detc.update(lambda_captures=capi, lambda_body=lbody)
        if m_out and m_in and a3[1] == "%s.end()" % m_in.group(1) and len(lam["params"]) == 1 and len(lam.get("caps") or []) == 1:
            okc = (decl18.get(m_in.group(1)) == "%s.wells(this.func)" % cx and re.fullmatch(r"std::vector<std::string>\{\{?\}?\}|std::vector<std::string>\(\)", decl18.get(m_out.group(1)) or "") is not None
                   and m_out.group(1) == "wnames" and capi == ["normalisePattern(this.arg_list.front())"]
                   and lbody == ["return shmatch(%s, %s);" % (lam["caps"][0]["n"], lam["params"][0]["n"])])
    chk.instance(r_lf, "getWellList.filter", sample=detc)
    if not okc:
        chk.violation(r_lf, "getWellList.filter", "getWellList must copy, from context.wells(func), exactly the wells W with shmatch(normalisePattern(arg_list.front()), W) into the returned list (found %s)" % detc, gw["file"], gw["l"])
    T_BS = "CTX.front() == '\\'"
    leaf_table("normalisePattern", [T_BS], lambda v: ["CTX.substr(1, <default>)", "CTX.substr(1)"] if v[T_BS] else "CTX", cls=False,
               why="one leading backslash quotes a leading '*' and is not part of the pattern")
    T_ONE, T_NOSTAR = "this.arg_list.size() == 1", 'this.arg_list.front().find("*", <default>) == npos'
    leaf_table("argListIsPattern", [T_ONE, T_NOSTAR], lambda v: v[T_ONE] and not v[T_NOSTAR], boolean=True, why="a pattern is a single argument that contains '*'")
    T_STAR, T_LONG = "this.arg_list.front().front() == '*'", "this.arg_list.front().size() > 1"
    leaf_table("argListIsWellList", [T_STAR, T_LONG], lambda v: v[T_STAR] and v[T_LONG], boolean=True, why="'*' alone is the all-wells pattern, '*X' names a well list")

    # entry points around the tree: Parser::parse and the name lookup of Actions
    px18 = chk.facts([A + "ActionParser.cpp", A + "Actions.cpp"])

    def other_fn(file_, cls_, nm, npar=None, ptype=None):
        c = [f for f in px18.fns if f["n"] == nm and f.get("body") and f["file"].endswith(file_) and (f.get("cls") or "").endswith(cls_)
             and (npar is None or len(f["params"]) == npar) and (ptype is None or ptype in (f["params"][0].get("t") or ""))]
        if len(c) != 1:
            raise core.AnalysisBroken("%s: %d definitions of %s::%s" % (file_, len(c), cls_, nm))
        return c[0]

    def plain_table(f, atoms, want, why, boolean=False, opaque=()):
        key = "%s::%s" % (f.get("cls", "").split("::")[-1], f["n"])
        try:
            got = dtable.table(f, boolean=boolean, opaque=opaque)
        except dtable.NotATable as e_:
            chk.instance(r_lf, key, sample=dict(not_a_table=str(e_)))
            chk.violation(r_lf, key, "%s is no longer a dispatch over its conditions (%s): %s" % (f["q"], e_, why), f["file"], f["l"])
            return
        diffs = dtable.same_table(got, atoms, want)
        chk.instance(r_lf, key, sample=dict(atoms=got[0], outcomes=sorted({str(v_) for v_ in got[1].values()})))
        if diffs:
            chk.violation(r_lf, key, "%s: %s; %s" % (f["q"], "; ".join(diffs[:3]), why), f["file"], f["l"])

    pf = other_fn("ActionParser.cpp", "Action::Parser", "parse")
    pv = [v["n"] for n in stmt_list(pf["body"]) if n["k"] == "Decl" for v in n["vars"] if (v.get("t") or "").endswith("Parser")]
    if len(pv) != 1:
        raise core.AnalysisBroken("Parser::parse: the parser object was not found")
    P_ = pv[0]
    T_N, T_E, T_C = "%s.next().type == TokenType::end" % P_, "%s.parse_or().type == TokenType::error" % P_, "%s.current().type == TokenType::end" % P_
    plain_table(pf, [T_N, T_E, T_C], lambda v: "ASTNode{%s.next().type}" % P_ if v[T_N] else "throw" if (v[T_E] or not v[T_C]) else "%s.parse_or()" % P_,
                "an empty condition gives the empty tree; otherwise the tree of parse_or is returned, provided it is no error node and every token was consumed", opaque=(P_,))
    FIND = "std::find_if(this.actions.begin(), this.actions.end(), [&%s=%s](1){ return ($0.name() == %s); })"
    hf = other_fn("Actions.cpp", "Action::Actions", "has", 1)
    hn = hf["params"][0]["n"]
    T_F = (FIND % (hn, hn, hn)) + " == this.actions.end()"
    plain_table(hf, [T_F], lambda v: not v[T_F], "has(name) holds exactly when an action with that name is stored", boolean=True)
    gf = other_fn("Actions.cpp", "Action::Actions", "operator[]", 1, "string")
    gn = gf["params"][0]["n"]
    T_G = (FIND % (gn, gn, gn)) + " == this.actions.end()"
    plain_table(gf, [T_G], lambda v: "throw" if v[T_G] else "*" + FIND % (gn, gn, gn), "operator[](name) gives the action of that name")

    from verif import fallthrough
    fallthrough.run(chk, "C18", floor=5)
    from verif import argorder
    argorder.run(chk, "C18", floor=11)

    chk.assumptions += ["documented ACTIONX condition syntax (AND binds tighter than OR; .GT. style aliases) as frozen in rules/C18.py"]
