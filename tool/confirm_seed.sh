#!/bin/bash
# tool/confirm_seed.sh <seed-id> <agent-worktree> <property> [more properties...]
# Confirms a seeded change in the scratch tree /tmp/seed/base (build, baseline suite, demo fails with / passes without),
# stores it under /verif/seeded/<seed-id>/ and runs the named checks against it in /repo (apply, check, undo).
set -u
ID=$1; AG=$2; shift 2
BASE=/tmp/seed/base
OUT=/verif/seeded/$ID
mkdir -p $OUT
cp $AG/seed/patch.diff $AG/seed/demo.cpp $AG/seed/build_demo.sh $OUT/ 2>/dev/null
cp $AG/seed/NOTES.md $OUT/NOTES.agent.md 2>/dev/null
for f in $AG/seed/*; do case "$f" in *.DATA|*.data|*.inc|*.hpp) cp "$f" $OUT/;; esac; done
cd $BASE && git checkout -q -- . && git apply $OUT/patch.diff || { echo "PATCH DOES NOT APPLY in base"; exit 2; }
JOBS=16 ./build.sh | tail -3
T=$(./runtests.sh 2>&1 | tr '\n' ' ')
echo "with change: $T"
mkdir -p $BASE/seed && cp $OUT/demo.cpp $BASE/seed/ && for f in $OUT/*.DATA $OUT/*.inc; do [ -e "$f" ] && cp "$f" $BASE/seed/; done
sed "s|$AG|$BASE|g" $OUT/build_demo.sh > $BASE/seed/build_demo.sh; chmod +x $BASE/seed/build_demo.sh
(cd $BASE/seed && ./build_demo.sh >/dev/null 2>$BASE/seed/_demo_build.log; ./demo > $BASE/seed/_demo_with.log 2>&1; echo "demo with change: exit $?")
git checkout -q -- . ; JOBS=16 ./build.sh | tail -1
(cd $BASE/seed && ./build_demo.sh >/dev/null 2>>$BASE/seed/_demo_build.log; ./demo > $BASE/seed/_demo_without.log 2>&1; echo "demo without change: exit $?")
tail -3 $BASE/seed/_demo_with.log | cut -c1-200
# run the checks against /repo with the patch applied, then undo
cd /repo && git apply $OUT/patch.diff || { echo "PATCH DOES NOT APPLY in /repo"; exit 2; }
for P in "$@"; do
  (cd /verif && VERIF_REPORTS=/tmp/seed/reports_$ID ./check $P > /tmp/seed/check_${ID}_$P.log 2>&1; echo "check $P on seeded tree: exit $?"; grep -E "^\s+/repo|ANALYSIS" /tmp/seed/check_${ID}_$P.log | cut -c1-300 | head -5)
done
git -C /repo checkout -- . ; git -C /repo status --short | grep -v "^??" | head -3
