#!/bin/bash
# Build the libTooling fact extractor (offline; LLVM 14 from the image).
set -e
cd "$(dirname "$0")"
mkdir -p ../bin
if [ ../bin/opmfacts -nt opmfacts.cc ]; then exit 0; fi
clang++ $(llvm-config-14 --cxxflags) -O1 -fno-rtti opmfacts.cc -o ../bin/opmfacts \
    /usr/lib/llvm-14/lib/libclang-cpp.so.14 /usr/lib/llvm-14/lib/libLLVM-14.so
