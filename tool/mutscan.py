#!/usr/bin/env python3
"""tool/mutscan.py <property> [--n 40] [--seed 1] [--jobs 6] [--where file:l0-l1 ...]

Coverage map of a check by random one-line mutants (a development aid, not a registered check): inside the source ranges the
property is anchored in (properties.jsonl: anchors.*.where) pick N lines, apply one classic mutation operator to each
(relational / arithmetic operator replacement, integer literal +1, && <-> ||, true <-> false, statement deletion), run the check on a scratch copy and report
which mutants it reports (exit 1), which leave it silent (exit 0) and which do not parse / break the analysis (exit 2).
Silent mutants are the places to read next: either the mutant does not touch the property, or a rule is missing.
/repo is never touched."""
import argparse
import concurrent.futures
import json
import os
import random
import re
import shutil
import subprocess
import sys
import tempfile

VERIF = "/verif"
sys.path.insert(0, VERIF)
from tool.neutral import split_code   # noqa: E402

OPS = [
    (r"(?<![<>=!+\-*/&|])<=(?![=>])", "<"), (r"(?<![<>=!+\-*/&|\w])<(?![<=>])(?=\s*[\w(])", "<="),
    (r"(?<![<>=!+\-*/&|])>=(?![=>])", ">"), (r"(?<![<>=!+\-*/&|\-])>(?![>=])(?=\s*[\w(])", ">="),
    (r"==", "!="), (r"!=", "=="),
    (r"(?<![+\w)\]]\s)(?<=[\w)\]] )\+(?= [\w(])", "-"), (r"(?<=[\w)\]] )-(?= [\w(])", "+"),
    (r"(?<=[\w)\]] )\*(?= [\w(])", "/"), (r"(?<=[\w)\]] )/(?= [\w(])", "*"),
    (r"&&", "||"), (r"\|\|", "&&"),
    (r"\btrue\b", "false"), (r"\bfalse\b", "true"),
    (r"(?<![\w.])(\d+)(?![\w.])", lambda m: str(int(m.group(1)) + 1)),
    (r"\+\+", "--"), (r"\+=", "-="),
]


def ranges_of(pid, extra):
    out = []
    for l in open(os.path.join(VERIF, "properties.jsonl")):
        p = json.loads(l)
        if p["id"] != pid:
            continue
        for k, v in (p.get("anchors") or {}).items():
            if k == "files" or not isinstance(v, list):
                continue
            for x in v:
                if isinstance(x, dict) and x.get("where"):
                    out.append(x["where"])
    out += extra or []
    res = []
    for w in out:
        for part in re.split(r"[;,]\s*(?=[\w/]+\.[ch]pp)", w):
            m = re.match(r"\s*([\w/.\-]+\.(?:cpp|hpp))(?::([\d\-, ]+))?", part)
            if not m:
                continue
            f = m.group(1)
            if not os.path.exists("/repo/" + f):
                continue
            if m.group(2):
                for r_ in m.group(2).split(","):
                    r_ = r_.strip()
                    if not r_:
                        continue
                    a, _, b = r_.partition("-")
                    res.append((f, int(a), int(b or a)))
            else:
                n = sum(1 for _ in open("/repo/" + f, errors="replace"))
                res.append((f, 1, n))
    return res


def mutate_line(line, rng):
    parts = split_code(line)
    cands = []
    for pi, (c, t) in enumerate(parts):
        if not c:
            continue
        for oi, (rx, rep) in enumerate(OPS):
            for m in re.finditer(rx, t):
                cands.append((pi, oi, m.start(), m.end(), m))
    if not cands:
        s = line.strip()
        if re.match(r"^[\w:.\->\[\]()*]+\s*(?:=|\+=|-=|\(|\.|->).*;\s*$", s) and not s.startswith(("return", "const ", "auto ", "int ", "double ", "std::", "throw", "break", "continue", "using", "typedef")):
            return re.sub(r"\S.*$", ";  // (statement deleted)", line, count=1), "delete statement"
        return None, None
    pi, oi, a, b, m = rng.choice(cands)
    rx, rep = OPS[oi]
    c, t = parts[pi]
    new = rep(m) if callable(rep) else rep
    parts[pi] = (c, t[:a] + new + t[b:])
    return "".join(t for _, t in parts), "%s -> %s" % (t[a:b], new)


def run_one(pid, f, ln, newline, desc):
    d = tempfile.mkdtemp(prefix="vmutscan_", dir="/tmp")
    try:
        subprocess.run("git -C /repo archive HEAD opm msim | tar -x -C %s" % d, shell=True, check=False, stderr=subprocess.DEVNULL)
        p = os.path.join(d, f)
        lines = open(p, errors="surrogateescape").read().split("\n")
        lines[ln - 1] = newline
        open(p, "w", errors="surrogateescape").write("\n".join(lines))
        env = dict(os.environ, VERIF_REPORTS=os.path.join(d, "_rep"))
        r = subprocess.run([os.path.join(VERIF, "check"), pid, "--root", d], env=env, stdout=subprocess.PIPE, stderr=subprocess.STDOUT, text=True)
        msg = [l for l in r.stdout.split("\n") if re.search(r"^\s+/repo|ANALYSIS-BROKEN", l)]
        return r.returncode, (msg[0][:230] if msg else "")
    finally:
        shutil.rmtree(d, ignore_errors=True)


def main():
    ap = argparse.ArgumentParser()
    ap.add_argument("pid")
    ap.add_argument("--n", type=int, default=40)
    ap.add_argument("--seed", type=int, default=1)
    ap.add_argument("--jobs", type=int, default=6)
    ap.add_argument("--where", nargs="*", default=[])
    ap.add_argument("--only-where", action="store_true")
    a = ap.parse_args()
    rng = random.Random(a.seed)
    rs = ranges_of(a.pid, a.where) if not a.only_where else ranges_of("", a.where)
    lines = []
    for f, l0, l1 in rs:
        src = open("/repo/" + f, errors="replace").read().split("\n")
        in_comment = False
        for ln in range(l0, min(l1, len(src)) + 1):
            t = src[ln - 1]
            s = t.strip()
            if "/*" in s and "*/" not in s:
                in_comment = True
            if in_comment:
                if "*/" in s:
                    in_comment = False
                continue
            if not s or s.startswith(("//", "#", "*", "/*")) or s in ("{", "}", "};"):
                continue
            lines.append((f, ln, t))
    lines = sorted(set(lines))
    rng.shuffle(lines)
    jobs = []
    for f, ln, t in lines:
        new, desc = mutate_line(t, rng)
        if new is None or new == t:
            continue
        jobs.append((f, ln, t, new, desc))
        if len(jobs) >= a.n:
            break
    print("%s: %d anchor ranges, %d candidate lines, %d mutants" % (a.pid, len(rs), len(lines), len(jobs)))
    res = []
    with concurrent.futures.ThreadPoolExecutor(max_workers=a.jobs) as ex:
        futs = {ex.submit(run_one, a.pid, f, ln, new, desc): (f, ln, t, new, desc) for f, ln, t, new, desc in jobs}
        for fu in concurrent.futures.as_completed(futs):
            f, ln, t, new, desc = futs[fu]
            rc, msg = fu.result()
            res.append((rc, f, ln, desc, t.strip()[:110], msg))
    res.sort(key=lambda r: (r[0], r[1], r[2]))
    cnt = {0: 0, 1: 0, 2: 0}
    for rc, f, ln, desc, t, msg in res:
        cnt[rc if rc in cnt else 2] += 1
    print("detected %d, silent %d, unparsable/broken %d" % (cnt[1], cnt[0], cnt[2]))
    for rc, f, ln, desc, t, msg in res:
        tag = {0: "SILENT ", 1: "caught ", 2: "broken "}.get(rc, "broken ")
        print("%s %s:%d  [%s]  %s%s" % (tag, f, ln, desc, t, ("\n         " + msg.strip()) if rc != 0 and msg else ""))


if __name__ == "__main__":
    main()
