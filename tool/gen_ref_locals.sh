#!/bin/bash
# tool/gen_ref_locals.sh  — (re)write tables/ref_locals.json: the local variable / parameter names of every function the
# checks load, as they are on /repo's CURRENT tree.  Run it only on a tree on which every check is clean; the table is the
# naming reference verif/refnames.py aligns renamed locals with.  Never run by a registered check.
cd /verif
rm -f tables/ref_locals.json
for p in C02 C03 C04 C05 C06 C07 C08 C09 C10 C11 C12 C13 C16 C17 C18 C20; do
  VERIF_REFNAMES_RECORD=1 VERIF_REPORTS=/tmp/_refnames_reports ./check $p --tier thorough >/dev/null 2>&1; r1=$?
  VERIF_REFNAMES_RECORD=1 VERIF_REPORTS=/tmp/_refnames_reports ./check $p >/dev/null 2>&1
  echo "$p rc=$r1/$?"
done
rm -rf /tmp/_refnames_reports
python3 -c "import json;d=json.load(open('tables/ref_locals.json'));print(len(d),'functions')"
