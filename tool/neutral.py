#!/usr/bin/env python3
"""tool/neutral.py <property> [--mode rename|incr|both] [--only <substring of function q>] [--keep]

False-alarm test: apply BEHAVIOUR-PRESERVING edits to a scratch copy of /repo's sources and run the check on it.
  rename : every local variable / parameter of every anchor function gets the suffix _nv (alpha-renaming);
  incr   : statement-level `x++` <-> `++x` (expression statements and for-increments) in the anchor functions.
Anchor functions = the functions the rules asked for by name or that carry rule instances (recorded by verif/core.py), plus,
for checks over few units, every function defined in those units' .cpp files.
The check must exit 0 on the edited copy.  Exit 1 (a VIOLATION) is a false alarm of the rule; exit 2 is a rule that is brittle
against the edit.  On a non-zero exit the tool bisects over the anchor functions and names the function(s) whose edit triggers it.
/repo is never touched."""
import json
import os
import re
import shutil
import subprocess
import sys
import tempfile

sys.path.insert(0, os.path.join(os.path.dirname(os.path.abspath(__file__)), ".."))
from verif import core            # noqa: E402
from verif.tree import walk       # noqa: E402

VERIF = "/verif"
IDENT = re.compile(r"^[A-Za-z_]\w*$")
KEYWORDS = set("auto int char float double bool long short unsigned signed const volatile static return if else for while do switch case default break continue struct class enum union this new delete true false nullptr sizeof typedef using namespace template typename try catch throw public private protected virtual override final operator inline constexpr and or not".split())


def run_check(pid, root, anchors=None):
    env = dict(os.environ, VERIF_REPORTS=os.path.join(root or tempfile.gettempdir(), "_reports_neutral"))
    if anchors:
        env["VERIF_ANCHORS"] = anchors
    p = subprocess.run([os.path.join(VERIF, "check"), pid] + (["--root", root] if root else []), env=env, stdout=subprocess.PIPE, stderr=subprocess.STDOUT, text=True)
    return p.returncode, p.stdout


def split_code(text):
    """Split source text into (is_code, piece) runs; string / char / raw-string literals and comments are not code."""
    out, i, n, cur = [], 0, len(text), ""

    def flush():
        nonlocal cur
        if cur:
            out.append((True, cur))
            cur = ""
    while i < n:
        ch = text[i]
        m = re.match(r'R"([^()\\ ]{0,16})\(', text[i:i + 20]) if ch == "R" and (i == 0 or not (text[i - 1].isalnum() or text[i - 1] == "_")) else None
        if m:
            end = text.find(")" + m.group(1) + '"', i + m.end())
            end = n if end < 0 else end + len(m.group(1)) + 2
            flush()
            out.append((False, text[i:end]))
            i = end
            continue
        if ch == '"' or (ch == "'" and not (i > 0 and text[i - 1].isdigit())):
            j = i + 1
            while j < n and text[j] != ch and text[j] != "\n":
                j += 2 if text[j] == "\\" else 1
            flush()
            out.append((False, text[i:j + 1]))
            i = j + 1
            continue
        if text.startswith("//", i):
            j = text.find("\n", i)
            j = n if j < 0 else j
            flush()
            out.append((False, text[i:j]))
            i = j
            continue
        if text.startswith("/*", i):
            j = text.find("*/", i + 2)
            j = n if j < 0 else j + 2
            flush()
            out.append((False, text[i:j]))
            i = j
            continue
        cur += ch
        i += 1
    flush()
    return out


def local_names(f):
    names = set()
    for p_ in f.get("params") or []:
        if p_.get("n"):
            names.add(p_["n"])
    body = f.get("body")
    mems = set()
    if body:
        for n in walk(body):
            if n["k"] == "Decl":
                for v in n["vars"]:
                    if v.get("n"):
                        names.add(v["n"])
            if n["k"] == "ForRange" and isinstance(n.get("var"), dict) and n["var"].get("n"):
                names.add(n["var"]["n"])
            if n["k"] == "Lambda":
                for p_ in n.get("params") or []:
                    if isinstance(p_, dict) and p_.get("n"):
                        names.add(p_["n"])
            if n["k"] in ("Mem", "DMem", "UMem") and n.get("n"):
                mems.add(n["n"])
            if n["k"] in ("Call", "MCall") and n.get("m"):
                mems.add(n["m"])
    return {x for x in names if IDENT.match(x) and x not in KEYWORDS and x not in mems and not x.startswith("__")}


def rename_in_range(lines, l0, l1, names):
    """Rename whole-word occurrences (outside literals and comments) of the eligible names in lines[l0-1:l1]; a name is dropped if it
    also occurs as a member / qualified name / callee / template in the range."""
    hi = min(l1, len(lines))
    src = "\n".join(lines[l0 - 1:hi])
    parts = split_code(src)
    text = "\n".join(t for c, t in parts if c)
    ok = set()
    for nm in names:
        w = re.escape(nm)
        if re.search(r"(?:\.|->|::)\s*%s\b" % w, text) or re.search(r"\b%s\s*(?:\(|<[^<=]|::)" % w, text) or re.search(r"\b%s_nv\b" % w, text):
            continue
        ok.add(nm)
    if not ok:
        return 0
    rx = re.compile(r"(?<![\w.])(?<!->)(?<!::)(%s)\b" % "|".join(sorted(map(re.escape, ok), key=len, reverse=True)))
    cnt = 0
    new = ""
    for c, t in parts:
        if c:
            t, k = rx.subn(lambda m: m.group(1) + "_nv", t)
            cnt += k
        new += t
    lines[l0 - 1:hi] = new.split("\n")
    return cnt


def incr_in_range(lines, l0, l1):
    cnt = 0
    for i in range(l0 - 1, min(l1, len(lines))):
        s = lines[i]
        s2 = re.sub(r"^(\s*)([A-Za-z_]\w*)\+\+;(\s*)$", r"\1++\2;\3", s)
        if s2 == s:
            s2 = re.sub(r"^(\s*)\+\+([A-Za-z_]\w*);(\s*)$", r"\1\2++;\3", s)
        if s2 == s:
            s2 = re.sub(r"(for\s*\(.*;\s*)([A-Za-z_]\w*)\s*\+\+\s*\)", r"\1++\2)", s)
        if s2 == s:
            s2 = re.sub(r"(for\s*\(.*;\s*)\+\+\s*([A-Za-z_]\w*)\s*\)", r"\1\2++)", s)
        if s2 != s:
            cnt += 1
            lines[i] = s2
    return cnt


def flip_in_range(lines, l0, l1):
    """a == b  ->  b == a (and !=) for simple operands that stand alone between ( && || and ) && || ; outside literals."""
    hi = min(l1, len(lines))
    src = "\n".join(lines[l0 - 1:hi])
    opnd = r"[A-Za-z_][\w]*(?:(?:\.|->|::)[A-Za-z_]\w*)*(?:\(\))?|\d+"
    rx = re.compile(r"(?P<pre>(?:\(|&&|\|\|)\s*)(?P<a>%s)\s*(?P<op>==|!=)\s*(?P<b>%s)(?P<post>\s*(?:\)|&&|\|\|))" % (opnd, opnd))
    cnt = 0
    new = ""
    for c, t in split_code(src):
        if c:
            t, k = rx.subn(lambda m: "%s%s %s %s%s" % (m.group("pre"), m.group("b"), m.group("op"), m.group("a"), m.group("post")), t)
            cnt += k
        new += t
    lines[l0 - 1:hi] = new.split("\n")
    return cnt


def braces_in_range(lines, l0, l1):
    """if (...)\n  stmt;   ->   if (...) {\n  stmt; }   for two-line forms with balanced parentheses."""
    cnt = 0
    i = l0 - 1
    hi = min(l1, len(lines)) - 1
    while i < hi:
        a, b = lines[i], lines[i + 1]
        if re.match(r"^\s*(?:else\s+)?if\s*\(.*\)\s*$", a) and a.count("(") == a.count(")") and '"' not in a and "//" not in a \
                and re.match(r"^\s*[A-Za-z_*(+\-][^;{}]*;\s*$", b) and not re.match(r"^\s*(?:if|for|while|else|do|switch|case|return\s*$)\b", b) \
                and b.count("(") == b.count(")") and '"' not in b and "//" not in b and "OPM_THROW" not in b:
            lines[i] = a.rstrip() + " {"
            lines[i + 1] = b.rstrip() + " }"
            cnt += 1
            i += 2
        else:
            i += 1
    return cnt


ARITH = re.compile(r"^(const )?(unsigned |signed )?(int|long|short|char|double|float|bool|unsigned|(std::)?size_t|(std::)?u?int(8|16|32|64)_t|long long|unsigned long|long unsigned int|Scalar|ValueType)( const)?$")


def arith_names(f):
    """locals / parameters of built-in arithmetic type: only for those is  x OP= e  the same as  x = x OP e"""
    out = set()
    for p_ in f.get("params") or []:
        if p_.get("n") and ARITH.match((p_.get("t") or "").replace("&", "").strip()) and "const" not in (p_.get("t") or ""):
            out.add(p_["n"])
    if f.get("body"):
        for n in walk(f["body"]):
            if n["k"] == "Decl":
                for v in n["vars"]:
                    if v.get("n") and ARITH.match((v.get("t") or "").strip()):
                        out.add(v["n"])
    return out


def compound_in_range(lines, l0, l1, names=None):
    """x += e;  ->  x = x + (e);   (and -=, *=) for a plain identifier on the left of a one-line statement"""
    cnt = 0
    for i in range(l0 - 1, min(l1, len(lines))):
        s = lines[i]
        m = re.match(r"^(\s*)([A-Za-z_]\w*) (\+|-|\*)= ([^;{}\"]+);(\s*)$", s)
        if m and "//" not in s and m.group(2) not in KEYWORDS and (names is None or m.group(2) in names):
            lines[i] = "%s%s = %s %s (%s);%s" % (m.group(1), m.group(2), m.group(2), m.group(3), m.group(4), m.group(5))
            cnt += 1
    return cnt


def ifswap_in_range(lines, l0, l1):
    """if (c) { A } else { B }  ->  if (!(c)) { B } else { A }   for blocks whose three bracket lines sit at the same indentation"""
    cnt = 0
    i = l0 - 1
    hi = min(l1, len(lines))
    while i < hi:
        m = re.match(r"^(\s*)if \((.*)\) \{\s*$", lines[i])
        if not m or "//" in lines[i] or '"' in lines[i] or m.group(2).count("(") != m.group(2).count(")") or re.match(r"^\s*if \(.*;.*\)", lines[i]):
            i += 1
            continue
        ind = m.group(1)
        j = i + 1
        while j < hi and not (lines[j].startswith(ind + "}") and not lines[j].startswith(ind + " ")):
            j += 1
        if j >= hi or not re.match(r"^%s\} else \{\s*$" % re.escape(ind), lines[j]):
            i += 1
            continue
        k = j + 1
        while k < hi and not (lines[k].startswith(ind + "}") and not lines[k].startswith(ind + " ")):
            k += 1
        if k >= hi or lines[k].rstrip() != ind + "}":
            i += 1
            continue
        a_blk, b_blk = lines[i + 1:j], lines[j + 1:k]
        if any(re.match(r"^\s*(case |default:)", x) for x in a_blk + b_blk):
            i = k + 1
            continue
        lines[i:k + 1] = [ind + "if (!(" + m.group(2) + ")) {"] + b_blk + [ind + "} else {"] + a_blk + [ind + "}"]
        cnt += 1
        i = k + 1
    return cnt


def make_copy():
    d = tempfile.mkdtemp(prefix="vneutral_", dir="/tmp")
    # committed sources (HEAD), so that a seed patch temporarily applied to /repo's working tree cannot leak into the copy
    subprocess.run("git -C /repo archive HEAD opm msim | tar -x -C %s" % d, shell=True, check=False, stderr=subprocess.DEVNULL)
    return d


def apply(root, fns, mode):
    byfile = {}
    for f in fns:
        byfile.setdefault(f["file"], []).append(f)
    total = 0
    for file, fl in byfile.items():
        path = root + file[len("/repo"):]
        if not os.path.exists(path):
            continue
        lines = open(path, encoding="utf-8", errors="surrogateescape").read().split("\n")
        for f in fl:
            if not f.get("l_end"):
                continue
            if mode in ("rename", "both"):
                total += rename_in_range(lines, f["l"], f["l_end"], local_names(f))
            if mode in ("incr", "both"):
                total += incr_in_range(lines, f["l"], f["l_end"])
            if mode == "pad" and isinstance(f.get("body"), dict) and f["body"].get("l"):
                bl = f["body"]["l"] - 1
                if bl < len(lines) and lines[bl].rstrip().endswith("{") and "namespace" not in lines[bl] and not f.get("constexpr"):
                    lines[bl] = lines[bl].rstrip() + " [[maybe_unused]] const int verif_pad_nv = 0;"
                    total += 1
            if mode == "spread":
                pass          # done after the loop, bottom-up (inserting lines moves everything below)
            if mode == "emplace":
                # v.push_back(x) -> v.emplace_back(x) for one-line calls whose argument is not a braced list
                for i_ in range(f["l"] - 1, min(f["l_end"], len(lines))):
                    s_ = lines[i_]
                    if ".push_back(" in s_ and "push_back({" not in s_ and "push_back( {" not in s_ and "//" not in s_ and s_.rstrip().endswith(";") and s_.count("(") == s_.count(")"):
                        lines[i_] = s_.replace(".push_back(", ".emplace_back(")
                        total += 1
            if mode == "ifswap":
                total += ifswap_in_range(lines, f["l"], f["l_end"])
            if mode == "compound":
                total += compound_in_range(lines, f["l"], f["l_end"], arith_names(f))
            if mode == "flip":
                total += flip_in_range(lines, f["l"], f["l_end"])
            if mode == "braces":
                total += braces_in_range(lines, f["l"], f["l_end"])
        if mode == "spread":
            for f in sorted(fl, key=lambda g: -(g.get("l") or 0)):
                if not f.get("l_end") or not isinstance(f.get("body"), dict) or not f["body"].get("l"):
                    continue
                lo, hi = f["body"]["l"], min(f["l_end"], len(lines)) - 1
                for i_ in range(hi - 1, lo, -1):
                    prev, cur = lines[i_ - 1].rstrip(), lines[i_].lstrip()
                    if prev.endswith((";", "{", "}")) and not prev.endswith("\\") and re.match(r"[A-Za-z_]", cur) and not cur.startswith(("else", "catch", "case", "default", "while")):
                        lines[i_:i_] = ["// verif: spread"]
                        total += 1
        if mode == "shift":
            # move every line of the file down: nothing may depend on absolute positions
            k = 1 if lines and lines[0].startswith("/*") is False else 0
            lines[0:0] = ["// verif: line shift", "// verif: line shift", "// verif: line shift"]
            total += 1
        open(path, "w", encoding="utf-8", errors="surrogateescape").write("\n".join(lines))
    return total


def main():
    import argparse
    ap = argparse.ArgumentParser()
    ap.add_argument("pid")
    ap.add_argument("--mode", default="both")
    ap.add_argument("--only", default=None)
    ap.add_argument("--keep", action="store_true")
    ap.add_argument("--headers", action="store_true", help="also edit functions defined in headers (re-extracts many units)")
    ap.add_argument("--files", default=None, help="regex: every function defined in a matching file is an anchor")
    ap.add_argument("--fn", default=None, help="regex: every function whose qualified name matches is an anchor")
    a = ap.parse_args()
    anch = tempfile.mktemp(prefix="vanch_", dir="/tmp")
    rc, out = run_check(a.pid, None, anchors=anch)
    if rc != 0:
        print("check %s is not clean on /repo itself (rc=%d); nothing to test" % (a.pid, rc))
        return 3
    d = json.load(open(anch))
    os.remove(anch)
    mod = __import__("rules." + a.pid, fromlist=["x"])
    units = getattr(mod, "UNITS", None)
    if not units:
        try:
            units = json.load(open(os.path.join(VERIF, "evidence", a.pid + ".json")))["coverage"]["units_parsed"]
        except Exception:
            units = None
    want_q = set(x[0] for x in d["touched"]) | set(d["instance_functions"])
    chk = core.Check(a.pid, "quick")
    all_units = units if units and len(units) <= 12 else sorted({u for u in core.library_units()})
    fx = chk.facts(all_units)
    small = bool(units) and len(units) <= 12
    unit_files = {"/repo/" + u for u in (units or [])}
    fns = []
    for f in fx.fns:
        if not f.get("body") or not f["file"].startswith("/repo/") or not f.get("l_end"):
            continue
        if not a.headers and not f["file"].endswith((".cpp", ".cc", ".c")):
            continue
        if f["q"] in want_q or (small and f["file"] in unit_files) or (a.files and re.search(a.files, f["file"])) or (a.fn and re.search(a.fn, f["q"])):
            if a.only and a.only not in f["q"]:
                continue
            fns.append(f)
    # one entry per (file, l)
    seen, uniq = set(), []
    for f in fns:
        k = (f["file"], f["l"])
        if k not in seen:
            seen.add(k)
            uniq.append(f)
    fns = uniq
    print("%s: %d anchor functions in %d files" % (a.pid, len(fns), len({f["file"] for f in fns})))

    def trial(sub, label):
        root = make_copy()
        try:
            n = apply(root, sub, a.mode)
            rc_, out_ = run_check(a.pid, root)
            lines = [l for l in out_.split("\n") if re.search(r"VIOLATION|ANALYSIS-BROKEN|^\s+/repo|error:", l)]
            print("  [%s] %d functions, %d edits -> exit %d" % (label, len(sub), n, rc_))
            for l in lines[:8]:
                print("      " + l[:300])
            if "opmfacts failed" in out_ and "error:" in out_:
                return -1, n      # the edit itself does not compile: a limitation of this tool, not of the rule
            return rc_, n
        finally:
            if not (a.keep and False):
                shutil.rmtree(root, ignore_errors=True)

    rc, n = trial(fns, "all")
    if rc == 0:
        print("NEUTRAL-OK property=%s mode=%s edits=%d" % (a.pid, a.mode, n))
        return 0
    # bisect: find single functions that trigger it
    culprits = []

    def bisect(sub, depth=0):
        if len(sub) == 1:
            culprits.append(sub[0])
            return
        h = len(sub) // 2
        for part in (sub[:h], sub[h:]):
            r_, _ = trial(part, "bisect%d" % depth)
            if r_ != 0:
                bisect(part, depth + 1)
    bisect(fns)
    real, invalid = [], []
    for f in culprits:
        r_, _ = trial([f], "single")
        (invalid if r_ == -1 else real).append(f)
    for f in invalid:
        print("NEUTRAL-INVALID-EDIT (the textual rename does not compile; function skipped) %s %s:%d" % (f["q"], f["file"], f["l"]))
    for f in real:
        print("NEUTRAL-FAIL property=%s function=%s %s:%d" % (a.pid, f["q"], f["file"], f["l"]))
    if not real:
        keep = [f for f in fns if not any(f is g for g in invalid)]
        r_, n = trial(keep, "all-valid")
        if r_ == 0:
            print("NEUTRAL-OK property=%s mode=%s edits=%d (without %d functions whose edit does not compile)" % (a.pid, a.mode, n, len(invalid)))
            return 0
        print("NEUTRAL-FAIL property=%s (combination)" % a.pid)
    return 1


if __name__ == "__main__":
    sys.exit(main())
