#!/usr/bin/env python3
"""tool/seeds_table.py — rewrite the table of seeded changes in DESIGN.md (between the SEEDS markers) from seeded/*/meta.json."""
import glob, json, re
rows = []
for m in sorted(glob.glob("/verif/seeded/*/meta.json")):
    x = json.load(open(m))
    text = x["breaks"]
    first = re.split(r"\. (?:Initially|First answer|Caught|Missed|C\d\d initially)", text)[0].rstrip(".")
    if len(first) > 170:
        first = first[:167] + "..."
    when = "as delivered"
    if "initially" in text.lower() or "First answer" in text or "after strengthening" in text.lower() or "missed as delivered" in text.lower():
        when = "after strengthening"
    rows.append("| %s | %s | %s | %s |" % (x["id"], first.replace("|", "/"), ", ".join(x["detected_by"]) or "NOT DETECTED", when))
n = len(rows)
n_del = sum(1 for r in rows if r.endswith("| as delivered |"))
table = "| seed | what it breaks | caught by | when |\n|---|---|---|---|\n" + "\n".join(rows) + "\n\n%d of %d were caught by the rules as they stood; %d showed a clause the rule set did not yet decide." % (n_del, n, n - n_del)
p = "/verif/DESIGN.md"
s = open(p).read()
if "<!-- SEEDS:BEGIN -->" not in s:
    a = s.index("| seed | what it breaks | caught by | when |")
    b = s.index("6 of 18 were caught by the rules as they stood; 12 showed a clause the rule set did not yet decide and each led to")
    s = s[:a] + "<!-- SEEDS:BEGIN -->\n<!-- SEEDS:END -->\n\nEach miss led to" + s[b + len("6 of 18 were caught by the rules as they stood; 12 showed a clause the rule set did not yet decide and each led to"):]
s = re.sub(r"<!-- SEEDS:BEGIN -->.*?<!-- SEEDS:END -->", "<!-- SEEDS:BEGIN -->\n" + table.replace("\\", "\\\\") + "\n<!-- SEEDS:END -->", s, flags=re.S)
open(p, "w").write(s)
print(n, "seeds;", n_del, "as delivered")
