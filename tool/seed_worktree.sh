#!/bin/bash
# tool/seed_worktree.sh <dir>   — create a scratch git worktree of /repo (HEAD) with its own ccache-backed build dir.
# The build has no debug info and shares one compiler cache with every other scratch tree.
set -e
D=$1
git -C /repo worktree add --detach "$D" HEAD >/dev/null 2>&1
export CCACHE_DIR=/tmp/seed_ccache CCACHE_BASEDIR="$D" CCACHE_NOHASHDIR=1 CCACHE_MAXSIZE=15G
cmake -G Ninja -S "$D" -B "$D/_build" -DCMAKE_BUILD_TYPE=Release -DCMAKE_CXX_FLAGS_RELEASE="-O1 -UNDEBUG" \
  -DCMAKE_CXX_COMPILER_LAUNCHER=ccache -DCMAKE_C_COMPILER_LAUNCHER=ccache -Dfmt_DIR=/root/miniconda/lib/cmake/fmt \
  -DOPM_ENABLE_PYTHON=OFF -DBUILD_EXAMPLES=ON >"$D/_configure.log" 2>&1 || { tail -20 "$D/_configure.log"; exit 1; }
cat > "$D/build.sh" <<EOS
#!/bin/bash
# incremental build of everything that links (targets that depend on the emptied table files fail to link: expected)
export CCACHE_DIR=/tmp/seed_ccache CCACHE_BASEDIR="$D" CCACHE_NOHASHDIR=1 CCACHE_MAXSIZE=15G
ninja -C "$D/_build" -k 0 -j\${JOBS:-8} "\$@" > "$D/_build.log" 2>&1
grep -E "error:|FAILED:" "$D/_build.log" | grep -v -E "co2brinepvt|test_binarycoefficients|test_co2brinepvt|test_components|test_eclblackoilfluidsystem|test_eclblackoilpvt|test_fluidsystems|test_h2brinepvt|collect2" | head -20
echo "build finished"
EOS
cat > "$D/runtests.sh" <<EOS
#!/bin/bash
# run the pinned baseline suite (164 tests) in this scratch tree; prints the tests of the baseline that do not pass
ctest --test-dir "$D/_build" -j8 --timeout 900 --output-junit "$D/_junit.xml" > "$D/_ctest.log" 2>&1
python3 - <<'PY'
import json, sys, xml.etree.ElementTree as ET
base = set(t.split("::")[0] for t in json.load(open("/root/.vp/BASELINE.json"))["stable_pass"])
root = ET.parse("$D/_junit.xml").getroot()
passed = {tc.get("name") for tc in root.iter("testcase") if tc.find("failure") is None and tc.find("error") is None and tc.get("status", "run") in ("run", "passed")}
missing = sorted(base - passed)
print("baseline tests passing: %d/%d" % (len(base & passed), len(base)))
if missing: print("NOT PASSING:", missing); sys.exit(1)
PY
EOS
chmod +x "$D/build.sh" "$D/runtests.sh"
echo "worktree ready: $D"
