#!/usr/bin/env python3
"""tool/seed_meta.py <id> <property> <caught-by or ''> <needs> <summary>  — write /verif/seeded/<id>/meta.json"""
import json, sys, os
sid, prop, caught, needs, summary = sys.argv[1:6]
d = dict(id=sid, property=prop, breaks=summary, needs_to_manifest=needs,
         origin="independent sub-agent given only the property text and a scratch worktree",
         confirmed=dict(where="/tmp/seed/base (scratch worktree, own build)", build="ok", baseline_suite="164/164 with the change",
                        demo_with_change="non-zero exit", demo_without_change="exit 0", how="tool/confirm_seed.sh"),
         detected_by=[c for c in caught.replace(" ", ",").split(",") if c], detected=bool(caught), as_delivered=os.environ.get("SEED_AS_DELIVERED") == "1")
if not d["as_delivered"] and "as delivered" not in summary.lower():
    d["breaks"] = summary.rstrip(".") + ". Missed as delivered; caught after adding / extending " + ", ".join(d["detected_by"])
json.dump(d, open(os.path.join("/verif/seeded", sid, "meta.json"), "w"), indent=1)
print("meta written", sid)
