#!/bin/bash
# tool/selftest.sh [seed-id ...]  — re-run every seeded change (seeded/<id>/patch.diff) against the checks on a scratch copy of
# /repo's sources and verify that the rule recorded in meta.json reports it.  /repo itself is not touched.
cd /verif
IDS=${@:-$(ls seeded)}
fail=0
for id in $IDS; do
  prop=$(python3 -c "import json;print(json.load(open('seeded/$id/meta.json'))['property'])")
  rules=$(python3 -c "import json;print(' '.join(json.load(open('seeded/$id/meta.json'))['detected_by']))")
  S=/tmp/vself_$$_$id
  mkdir -p $S
  rsync -a --exclude '*.inc' /repo/opm /repo/msim $S/ 2>/dev/null
  if ! (cd $S && patch -s -p1 < /verif/seeded/$id/patch.diff >/dev/null 2>&1); then echo "$id: PATCH DOES NOT APPLY (source has moved on)"; rm -rf $S; fail=1; continue; fi
  hit=""
  for r in $rules; do
    p=${r%%.*}
    out=$(VERIF_REPORTS=$S/reports ./check $p --root $S 2>&1)
    if echo "$out" | grep -q "\[$r\]"; then hit="$hit $r"; fi
  done
  if [ -n "$hit" ]; then echo "$id: detected by$hit"; else echo "$id: NOT DETECTED (expected: $rules)"; fail=1; fi
  rm -rf $S
done
exit $fail
