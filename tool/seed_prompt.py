#!/usr/bin/env python3
"""tool/seed_prompt.py <prop> <tag>  — write /tmp/seed/prompt_<tag>.txt for a fresh seeding sub-agent working in /tmp/seed/<tag>.
The agent sees the property text, the relevant-files hint and (so that it looks elsewhere) one line per earlier idea - nothing of /verif."""
import glob, json, os, re, sys
prop, tag = sys.argv[1:3]
K = os.path.join(os.path.dirname(os.path.abspath(__file__)), "seedkit")
d = "/tmp/seed/" + tag
t = open(os.path.join(K, "agent_prompt.txt")).read().replace("DIR", d).replace("PROPTEXT", open(os.path.join(K, "prop_%s.txt" % prop)).read().strip())
ideas = []
for m in sorted(glob.glob("/verif/seeded/%s-*/meta.json" % prop)):
    b = json.load(open(m))["breaks"]
    b = re.split(r"[.;]? \(?(?:Initially missed|Initially caught|First answer of the check|Missed|Caught|caught|missed|First missed|Detected|detected|rule C\d\d)", b)[0]
    ideas.append(b.strip())
if ideas:
    t += "\n\nADDITIONAL CONSTRAINT for this attempt: earlier attempts already used these ideas: " + " ".join("(%d) %s;" % (i + 1, x) for i, x in enumerate(ideas)) + \
        " Find a DIFFERENT kind of change - a different mechanism and a different part of the code - that breaks the same property.\n"
os.makedirs("/tmp/seed", exist_ok=True)
open("/tmp/seed/prompt_%s.txt" % tag, "w").write(t)
print("/tmp/seed/prompt_%s.txt" % tag, len(ideas), "earlier ideas")
