#!/bin/bash
# Build /repo (guard off; there are no hooks) and run the pinned suite; compare with BASELINE.json stable_pass.
# Targets whose link fails because of the emptied table files (EMPTIED_FILES.txt) are not in the baseline.
ninja -C /repo/_build -k 0 -j16 >/tmp/opm_baseline_build.log 2>&1
ctest --test-dir /repo/_build -j8 --timeout 900 --output-junit /tmp/opm_baseline_off.junit.xml >/tmp/opm_baseline_ctest.log 2>&1
python3 - <<'PY'
import json, sys, xml.etree.ElementTree as ET
base = set(t.split("::")[0] for t in json.load(open("/root/.vp/BASELINE.json"))["stable_pass"])
root = ET.parse("/tmp/opm_baseline_off.junit.xml").getroot()
passed = set()
for tc in root.iter("testcase"):
    ok = tc.find("failure") is None and tc.find("error") is None and tc.get("status", "run") in ("run", "passed")
    if ok:
        passed.add(tc.get("name"))
missing = sorted(base - passed)
print("baseline tests passing: %d/%d" % (len(base & passed), len(base)))
if missing:
    print("NOT PASSING:", missing)
    sys.exit(1)
PY
