// opmfacts: libTooling fact extractor for the opm-common static checks.
//
// Emits one JSON object per line ("entity") for every function definition,
// record, enum and namespace-scope/static variable whose location lies in a
// file matching --files (default: the main file of the translation unit).
// Function bodies are emitted as compact, *resolved* trees: callees by
// qualified name, members with their parent record, enumerators with their
// value, integral constant expressions with their evaluated value.
//
// Passes only extract.  All judgement lives in the python rule modules.
//
// usage: opmfacts --out FILE [--files REGEX] [--fn REGEX] [--no-body] src -- flags...

#include "clang/AST/ASTConsumer.h"
#include "clang/AST/ASTContext.h"
#include "clang/AST/DeclCXX.h"
#include "clang/AST/DeclTemplate.h"
#include "clang/AST/ExprCXX.h"
#include "clang/AST/ExprOpenMP.h"
#include "clang/AST/RecursiveASTVisitor.h"
#include "clang/AST/StmtCXX.h"
#include "clang/AST/StmtOpenMP.h"
#include "clang/Frontend/CompilerInstance.h"
#include "clang/Frontend/FrontendAction.h"
#include "clang/Tooling/CommonOptionsParser.h"
#include "clang/Tooling/Tooling.h"
#include "llvm/Support/CommandLine.h"
#include "llvm/Support/JSON.h"
#include "llvm/Support/Regex.h"
#include "llvm/Support/raw_ostream.h"

#include <set>
#include <string>

using namespace clang;
using namespace clang::tooling;
namespace json = llvm::json;

static llvm::cl::OptionCategory Cat("opmfacts options");
static llvm::cl::opt<std::string> OutFile("out", llvm::cl::desc("output JSONL file"), llvm::cl::Required, llvm::cl::cat(Cat));
static llvm::cl::opt<std::string> FilesRe("files", llvm::cl::desc("regex on file paths whose entities are dumped (default: main file)"), llvm::cl::init(""), llvm::cl::cat(Cat));
static llvm::cl::opt<std::string> FnRe("fn", llvm::cl::desc("regex on qualified function names (default: all)"), llvm::cl::init(""), llvm::cl::cat(Cat));
static llvm::cl::opt<bool> RestLight("rest-light", llvm::cl::desc("functions not matching --fn are emitted without body (summaries only)"), llvm::cl::init(false), llvm::cl::cat(Cat));
static llvm::cl::opt<bool> NoBody("no-body", llvm::cl::desc("omit body trees; emit call/throw summaries only"), llvm::cl::init(false), llvm::cl::cat(Cat));

namespace {

static std::string fixUtf8(llvm::StringRef s) {
    if (json::isUTF8(s)) return s.str();
    return json::fixUTF8(s);
}

class Dumper {
public:
    Dumper(ASTContext& ctx, json::OStream& j) : Ctx(ctx), SM(ctx.getSourceManager()), J(j), PP(ctx.getLangOpts()) {
        PP.SuppressTagKeyword = true;
        PP.Bool = true;
        PP.SuppressUnwrittenScope = true;
    }

    ASTContext& Ctx;
    SourceManager& SM;
    json::OStream& J;
    PrintingPolicy PP;

    // summary collected while dumping a function
    std::set<std::string> callees;
    std::vector<json::Value> throwsV;
    std::set<std::string> mrefs;

    std::string ty(QualType t) { return t.isNull() ? std::string("<null>") : fixUtf8(t.getAsString(PP)); }

    unsigned line(SourceLocation l) {
        if (l.isInvalid()) return 0;
        return SM.getExpansionLineNumber(l);
    }
    std::string file(SourceLocation l) {
        if (l.isInvalid()) return "";
        auto f = SM.getFilename(SM.getExpansionLoc(l));
        return f.str();
    }

    static std::string qname(const NamedDecl* d) {
        if (!d) return "";
        std::string s;
        llvm::raw_string_ostream os(s);
        d->printQualifiedName(os);
        os.flush();
        return fixUtf8(s);
    }

    bool derivesFromStdException(QualType t) {
        t = t.getNonReferenceType().getUnqualifiedType();
        if (const auto* pt = t->getAs<PointerType>()) {
            (void)pt;
            return false;
        }
        const CXXRecordDecl* rd = t->getAsCXXRecordDecl();
        if (!rd) return false;
        rd = rd->getDefinition();
        if (!rd) return false;
        if (qname(rd) == "std::exception") return true;
        bool found = false;
        if (!rd->hasDefinition()) return false;
        rd->forallBases([&](const CXXRecordDecl* b) {
            if (qname(b) == "std::exception") { found = true; return false; }
            return true;
        });
        return found;
    }

    void tryEval(const Expr* e) {
        if (!e || e->isValueDependent() || e->isTypeDependent()) return;
        QualType t = e->getType();
        if (t.isNull()) return;
        if (!(t->isIntegralOrEnumerationType())) {
            if (t->isRealFloatingType()) {
                Expr::EvalResult r;
                if (e->EvaluateAsRValue(r, Ctx) && !r.HasSideEffects && r.Val.isFloat()) {
                    llvm::SmallString<32> s;
                    r.Val.getFloat().toString(s, 17);
                    J.attribute("fv", s.str());
                }
            }
            return;
        }
        Expr::EvalResult r;
        if (e->EvaluateAsInt(r, Ctx, Expr::SE_NoSideEffects) && r.Val.isInt()) {
            J.attribute("ev", r.Val.getInt().getExtValue());
        }
    }

    void child(const char* key, const Stmt* s) {
        J.attributeBegin(key);
        node(s);
        J.attributeEnd();
    }

    void children(const char* key, llvm::ArrayRef<const Stmt*> v) {
        J.attributeBegin(key);
        J.arrayBegin();
        for (auto* s : v) node(s);
        J.arrayEnd();
        J.attributeEnd();
    }

    template <class Range>
    void childrenR(const char* key, Range&& r) {
        J.attributeBegin(key);
        J.arrayBegin();
        for (const Stmt* s : r) node(s);
        J.arrayEnd();
        J.attributeEnd();
    }

    static const Expr* skip(const Expr* e) {
        while (e) {
            if (auto* x = dyn_cast<ImplicitCastExpr>(e)) { e = x->getSubExpr(); continue; }
            if (auto* x = dyn_cast<ParenExpr>(e)) { e = x->getSubExpr(); continue; }
            if (auto* x = dyn_cast<FullExpr>(e)) { e = x->getSubExpr(); continue; }
            if (auto* x = dyn_cast<MaterializeTemporaryExpr>(e)) { e = x->getSubExpr(); continue; }
            if (auto* x = dyn_cast<CXXBindTemporaryExpr>(e)) { e = x->getSubExpr(); continue; }
            if (auto* x = dyn_cast<SubstNonTypeTemplateParmExpr>(e)) { e = x->getReplacement(); continue; }
            if (auto* x = dyn_cast<CXXStdInitializerListExpr>(e)) { e = x->getSubExpr(); continue; }
            break;
        }
        return e;
    }

    void varDecl(const VarDecl* v) {
        J.objectBegin();
        J.attribute("n", v->getNameAsString());
        J.attribute("t", ty(v->getType()));
        J.attribute("l", (int64_t)line(v->getLocation()));
        if (v->getType()->isReferenceType()) {
            J.attribute("ref", true);
            if (v->getType().getNonReferenceType().isConstQualified()) J.attribute("cref", true);
        }
        if (v->getType()->isPointerType()) {
            J.attribute("ptr", true);
            if (v->getType()->getPointeeType().isConstQualified()) J.attribute("cptr", true);
        }
        if (v->getType().isConstQualified()) J.attribute("const", true);
        if (v->isStaticLocal()) J.attribute("static", true);
        if (v->hasInit()) child("init", v->getInit());
        J.objectEnd();
    }

    void targs(const FunctionDecl* fd) {
        const TemplateArgumentList* tal = fd ? fd->getTemplateSpecializationArgs() : nullptr;
        if (!tal) return;
        J.attributeBegin("targs");
        J.arrayBegin();
        for (const TemplateArgument& ta : tal->asArray()) {
            std::string ts;
            llvm::raw_string_ostream os(ts);
            ta.print(PP, os, /*IncludeType*/ false);
            os.flush();
            J.value(fixUtf8(ts));
        }
        J.arrayEnd();
        J.attributeEnd();
    }

    void ptypes(const FunctionDecl* fd) {
        if (!fd || fd->getNumParams() == 0) return;
        J.attributeBegin("pt");
        J.arrayBegin();
        for (const ParmVarDecl* p : fd->parameters()) J.value(ty(p->getType()));
        J.arrayEnd();
        J.attributeEnd();
    }

    void calleeAttrs(const FunctionDecl* fd) {
        if (!fd) return;
        std::string q = qname(fd);
        J.attribute("fn", q);
        targs(fd);
        ptypes(fd);
        callees.insert(q);
        if (auto* md = dyn_cast<CXXMethodDecl>(fd)) {
            J.attribute("m", md->getNameAsString());
            if (md->isConst()) J.attribute("const", true);
            if (md->isVirtual()) J.attribute("virt", true);
            if (md->isStatic()) J.attribute("smeth", true);
            J.attribute("cls", qname(md->getParent()));
        }
    }

    void node(const Stmt* s) {
        if (!s) { J.value(nullptr); return; }
        if (auto* e = dyn_cast<Expr>(s)) {
            const Expr* k = skip(e);
            if (k != e) { node(k); return; }
        }
        J.objectBegin();
        nodeBody(s);
        J.objectEnd();
    }

    void K(const char* k, const Stmt* s) {
        J.attribute("k", k);
        J.attribute("l", (int64_t)line(s->getBeginLoc()));
    }

    void nodeBody(const Stmt* s) {
        // ---- expressions
        if (auto* x = dyn_cast<DeclRefExpr>(s)) {
            K("Ref", s);
            const ValueDecl* d = x->getDecl();
            J.attribute("n", d->getNameAsString());
            if (auto* ec = dyn_cast<EnumConstantDecl>(d)) {
                J.attribute("d", "Enum");
                J.attribute("q", qname(d));
                J.attribute("ev", ec->getInitVal().getExtValue());
            } else if (auto* fd = dyn_cast<FunctionDecl>(d)) {
                J.attribute("d", "Fn");
                J.attribute("q", qname(fd));
                targs(fd);
                callees.insert(qname(fd));
            } else if (auto* vd = dyn_cast<VarDecl>(d)) {
                bool local = vd->isLocalVarDeclOrParm();
                J.attribute("d", isa<ParmVarDecl>(vd) ? "Parm" : (local ? "Var" : "GVar"));
                if (!local) J.attribute("q", qname(d));
                J.attribute("t", ty(vd->getType()));
                J.attribute("dl", (int64_t)line(vd->getLocation()));
                if (!local || vd->getType().isConstQualified()) tryEval(x);
            } else if (isa<BindingDecl>(d)) {
                J.attribute("d", "Bind");
                J.attribute("t", ty(d->getType()));
            } else if (isa<NonTypeTemplateParmDecl>(d)) {
                J.attribute("d", "NTTP");
            } else {
                J.attribute("d", d->getDeclKindName());
                J.attribute("q", qname(d));
            }
            return;
        }
        if (auto* x = dyn_cast<MemberExpr>(s)) {
            K("Mem", s);
            const ValueDecl* d = x->getMemberDecl();
            J.attribute("n", d->getNameAsString());
            if (auto* fd = dyn_cast<FieldDecl>(d)) {
                mrefs.insert(qname(fd->getParent()) + "::" + fd->getNameAsString());
                J.attribute("cls", qname(fd->getParent()));
                J.attribute("t", ty(fd->getType()));
                if (fd->isMutable()) J.attribute("mutable", true);
            } else if (auto* md = dyn_cast<CXXMethodDecl>(d)) {
                J.attribute("cls", qname(md->getParent()));
                J.attribute("meth", true);
            } else if (auto* vd = dyn_cast<VarDecl>(d)) {
                J.attribute("cls", qname(dyn_cast<NamedDecl>(vd->getDeclContext())));
                J.attribute("smem", true);
                J.attribute("t", ty(vd->getType()));
                tryEval(x);
            }
            if (x->isArrow()) J.attribute("arrow", true);
            if (x->isImplicitAccess()) J.attribute("impl", true);
            child("b", x->getBase());
            return;
        }
        if (isa<CXXThisExpr>(s)) { K("This", s); return; }
        if (auto* x = dyn_cast<CXXOperatorCallExpr>(s)) {
            K("OpCall", s);
            J.attribute("op", getOperatorSpelling(x->getOperator()));
            calleeAttrs(x->getDirectCallee());
            J.attribute("t", ty(x->getType()));
            if (!x->getDirectCallee()) child("callee", x->getCallee());
            childrenR("a", x->arguments());
            return;
        }
        if (auto* x = dyn_cast<CXXMemberCallExpr>(s)) {
            K("MCall", s);
            calleeAttrs(x->getMethodDecl());
            J.attribute("t", ty(x->getType()));
            if (auto* me = dyn_cast<MemberExpr>(skip(x->getCallee()))) {
                if (me->isArrow()) J.attribute("arrow", true);
                if (me->isImplicitAccess()) J.attribute("impl", true);
                child("obj", me->getBase());
            } else {
                child("callee", x->getCallee());
            }
            childrenR("a", x->arguments());
            return;
        }
        if (auto* x = dyn_cast<CallExpr>(s)) {
            K("Call", s);
            const FunctionDecl* fd = x->getDirectCallee();
            calleeAttrs(fd);
            J.attribute("t", ty(x->getType()));
            if (!fd) child("callee", x->getCallee());
            childrenR("a", x->arguments());
            tryEval(x);
            return;
        }
        if (auto* x = dyn_cast<CompoundAssignOperator>(s)) {
            K("Bin", s);
            J.attribute("op", x->getOpcodeStr());
            J.attribute("asg", true);
            children("c", {x->getLHS(), x->getRHS()});
            return;
        }
        if (auto* x = dyn_cast<BinaryOperator>(s)) {
            K("Bin", s);
            J.attribute("op", x->getOpcodeStr());
            if (x->isAssignmentOp()) J.attribute("asg", true);
            children("c", {x->getLHS(), x->getRHS()});
            if (!x->isAssignmentOp()) tryEval(x);
            return;
        }
        if (auto* x = dyn_cast<UnaryOperator>(s)) {
            K("Un", s);
            std::string op = UnaryOperator::getOpcodeStr(x->getOpcode()).str();
            if (x->isPostfix()) op = "post" + op;
            J.attribute("op", op);
            children("c", {x->getSubExpr()});
            if (!x->isIncrementDecrementOp()) tryEval(x);
            return;
        }
        if (auto* x = dyn_cast<AbstractConditionalOperator>(s)) {
            K("Cond", s);
            children("c", {x->getCond(), x->getTrueExpr(), x->getFalseExpr()});
            return;
        }
        if (auto* x = dyn_cast<IntegerLiteral>(s)) {
            K("Int", s);
            J.attribute("v", x->getValue().getLimitedValue());
            return;
        }
        if (auto* x = dyn_cast<FloatingLiteral>(s)) {
            K("Flt", s);
            llvm::SmallString<32> str;
            x->getValue().toString(str, 17);
            J.attribute("v", str.str());
            return;
        }
        if (auto* x = dyn_cast<StringLiteral>(s)) {
            K("Str", s);
            if (x->getCharByteWidth() == 1) J.attribute("v", fixUtf8(x->getString()));
            else J.attribute("v", "<wide>");
            return;
        }
        if (auto* x = dyn_cast<CharacterLiteral>(s)) {
            K("Chr", s);
            J.attribute("v", (int64_t)x->getValue());
            return;
        }
        if (auto* x = dyn_cast<CXXBoolLiteralExpr>(s)) {
            K("Bool", s);
            J.attribute("v", x->getValue());
            return;
        }
        if (isa<CXXNullPtrLiteralExpr>(s)) { K("Null", s); return; }
        if (auto* x = dyn_cast<ArraySubscriptExpr>(s)) {
            K("Idx", s);
            children("c", {x->getLHS(), x->getRHS()});
            return;
        }
        if (auto* x = dyn_cast<CXXConstructExpr>(s)) {
            K("Ctor", s);
            J.attribute("t", ty(x->getType()));
            if (auto* cd = x->getConstructor()) {
                if (cd->isCopyOrMoveConstructor()) J.attribute("copy", true);
                callees.insert(qname(cd));
                J.attribute("fn", qname(cd));
                ptypes(cd);
            }
            if (x->isListInitialization()) J.attribute("list", true);
            childrenR("a", x->arguments());
            return;
        }
        if (auto* x = dyn_cast<CXXUnresolvedConstructExpr>(s)) {
            K("UCtor", s);
            J.attribute("t", ty(x->getTypeAsWritten()));
            childrenR("a", x->arguments());
            return;
        }
        if (auto* x = dyn_cast<InitListExpr>(s)) {
            K("InitList", s);
            const InitListExpr* sem = x->isSemanticForm() ? x : (x->getSemanticForm() ? x->getSemanticForm() : x);
            J.attribute("t", ty(sem->getType()));
            J.attributeBegin("c");
            J.arrayBegin();
            for (const Expr* i : sem->inits()) node(i);
            J.arrayEnd();
            J.attributeEnd();
            if (sem->hasArrayFiller()) J.attribute("filler", true);
            return;
        }
        if (isa<ImplicitValueInitExpr>(s) || isa<CXXScalarValueInitExpr>(s)) {
            K("ZeroInit", s);
            J.attribute("t", ty(cast<Expr>(s)->getType()));
            return;
        }
        if (auto* x = dyn_cast<CXXDefaultArgExpr>(s)) {
            K("DefArg", s);
            child("e", x->getExpr());
            return;
        }
        if (auto* x = dyn_cast<CXXDefaultInitExpr>(s)) {
            K("DefInit", s);
            child("e", x->getExpr());
            return;
        }
        if (auto* x = dyn_cast<LambdaExpr>(s)) {
            K("Lambda", s);
            J.attributeBegin("params");
            J.arrayBegin();
            if (auto* op = x->getCallOperator())
                for (auto* p : op->parameters()) varDecl(p);
            J.arrayEnd();
            J.attributeEnd();
            J.attributeBegin("caps");
            J.arrayBegin();
            for (const auto& c : x->captures()) {
                J.objectBegin();
                if (c.capturesThis()) J.attribute("n", "this");
                else if (c.capturesVariable()) J.attribute("n", c.getCapturedVar()->getNameAsString());
                J.attribute("byref", c.getCaptureKind() == LCK_ByRef);
                J.objectEnd();
            }
            J.arrayEnd();
            J.attributeEnd();
            if (x->getCaptureDefault() != LCD_None) J.attribute("capdef", x->getCaptureDefault() == LCD_ByRef ? "&" : "=");
            J.attributeBegin("capinits");
            J.arrayBegin();
            for (const Expr* ci : x->capture_inits()) node(ci);
            J.arrayEnd();
            J.attributeEnd();
            child("body", x->getBody());
            return;
        }
        if (auto* x = dyn_cast<CXXDependentScopeMemberExpr>(s)) {
            K("DMem", s);
            mrefs.insert("?::" + x->getMember().getAsString());
            J.attribute("n", x->getMember().getAsString());
            if (auto* q = x->getQualifier()) {
                std::string qs;
                llvm::raw_string_ostream os(qs);
                q->print(os, PP);
                os.flush();
                J.attribute("qual", qs);
            }
            if (x->isArrow()) J.attribute("arrow", true);
            if (x->isImplicitAccess()) J.attribute("impl", true);
            else child("b", x->getBase());
            return;
        }
        if (auto* x = dyn_cast<UnresolvedMemberExpr>(s)) {
            K("UMem", s);
            J.attribute("n", x->getMemberName().getAsString());
            if (x->isImplicitAccess()) J.attribute("impl", true);
            else child("b", x->getBase());
            return;
        }
        if (auto* x = dyn_cast<UnresolvedLookupExpr>(s)) {
            K("ULookup", s);
            J.attribute("n", x->getName().getAsString());
            if (auto* q = x->getQualifier()) {
                std::string qs;
                llvm::raw_string_ostream os(qs);
                q->print(os, PP);
                os.flush();
                J.attribute("qual", qs);
            }
            return;
        }
        if (auto* x = dyn_cast<DependentScopeDeclRefExpr>(s)) {
            K("DRef", s);
            J.attribute("n", x->getDeclName().getAsString());
            if (auto* q = x->getQualifier()) {
                std::string qs;
                llvm::raw_string_ostream os(qs);
                q->print(os, PP);
                os.flush();
                J.attribute("qual", qs);
            }
            return;
        }
        if (auto* x = dyn_cast<ExplicitCastExpr>(s)) {
            K("Cast", s);
            const char* ck = isa<CXXStaticCastExpr>(x) ? "static" : isa<CXXReinterpretCastExpr>(x) ? "reinterpret" : isa<CXXConstCastExpr>(x) ? "const" : isa<CXXDynamicCastExpr>(x) ? "dynamic" : isa<CXXFunctionalCastExpr>(x) ? "functional" : "cstyle";
            J.attribute("ck", ck);
            J.attribute("t", ty(x->getTypeAsWritten()));
            children("c", {x->getSubExpr()});
            tryEval(x);
            return;
        }
        if (auto* x = dyn_cast<UnaryExprOrTypeTraitExpr>(s)) {
            K("SizeOf", s);
            if (x->isArgumentType()) J.attribute("t", ty(x->getArgumentType()));
            else child("e", x->getArgumentExpr());
            tryEval(x);
            return;
        }
        if (auto* x = dyn_cast<CXXThrowExpr>(s)) {
            K("Throw", s);
            json::Object tv;
            tv["l"] = (int64_t)line(s->getBeginLoc());
            tv["file"] = file(s->getBeginLoc());
            if (const Expr* op = x->getSubExpr()) {
                QualType t = skip(op)->getType();
                J.attribute("t", ty(t));
                bool dep = t->isDependentType();
                bool isstd = !dep && derivesFromStdException(t);
                J.attribute("std", isstd);
                if (dep) J.attribute("dep", true);
                tv["t"] = ty(t);
                tv["std"] = isstd;
                tv["dep"] = dep;
                children("c", {op});
            } else {
                J.attribute("rethrow", true);
                tv["rethrow"] = true;
            }
            throwsV.push_back(std::move(tv));
            return;
        }
        if (auto* x = dyn_cast<CXXNewExpr>(s)) {
            K("New", s);
            J.attribute("t", ty(x->getAllocatedType()));
            if (x->getInitializer()) child("init", x->getInitializer());
            return;
        }
        if (auto* x = dyn_cast<CXXDeleteExpr>(s)) {
            K("Delete", s);
            children("c", {x->getArgument()});
            return;
        }
        if (auto* x = dyn_cast<CXXTemporaryObjectExpr>(s)) { (void)x; }
        // ---- statements
        if (auto* x = dyn_cast<CompoundStmt>(s)) {
            K("Block", s);
            childrenR("c", x->body());
            return;
        }
        if (auto* x = dyn_cast<IfStmt>(s)) {
            K("If", s);
            if (x->isConstexpr()) J.attribute("constexpr", true);
            if (x->getInit()) child("init", x->getInit());
            if (x->getConditionVariable()) {
                J.attributeBegin("condvar");
                varDecl(x->getConditionVariable());
                J.attributeEnd();
            }
            child("cond", x->getCond());
            child("then", x->getThen());
            if (x->getElse()) child("else", x->getElse());
            return;
        }
        if (auto* x = dyn_cast<ForStmt>(s)) {
            K("For", s);
            if (x->getInit()) child("init", x->getInit());
            if (x->getCond()) child("cond", x->getCond());
            if (x->getInc()) child("inc", x->getInc());
            child("body", x->getBody());
            return;
        }
        if (auto* x = dyn_cast<CXXForRangeStmt>(s)) {
            K("ForRange", s);
            J.attributeBegin("var");
            varDecl(x->getLoopVariable());
            J.attributeEnd();
            child("range", x->getRangeInit());
            child("body", x->getBody());
            return;
        }
        if (auto* x = dyn_cast<WhileStmt>(s)) {
            K("While", s);
            child("cond", x->getCond());
            child("body", x->getBody());
            return;
        }
        if (auto* x = dyn_cast<DoStmt>(s)) {
            K("Do", s);
            child("body", x->getBody());
            child("cond", x->getCond());
            return;
        }
        if (auto* x = dyn_cast<ReturnStmt>(s)) {
            K("Return", s);
            if (x->getRetValue()) child("e", x->getRetValue());
            return;
        }
        if (auto* x = dyn_cast<DeclStmt>(s)) {
            K("Decl", s);
            J.attributeBegin("vars");
            J.arrayBegin();
            for (const Decl* d : x->decls()) {
                if (auto* v = dyn_cast<VarDecl>(d)) {
                    varDecl(v);
                    if (auto* dd = dyn_cast<DecompositionDecl>(v)) { (void)dd; }
                }
            }
            J.arrayEnd();
            J.attributeEnd();
            for (const Decl* d : x->decls()) {
                if (auto* dd = dyn_cast<DecompositionDecl>(d)) {
                    J.attributeBegin("bindings");
                    J.arrayBegin();
                    for (auto* b : dd->bindings()) J.value(b->getNameAsString());
                    J.arrayEnd();
                    J.attributeEnd();
                }
            }
            return;
        }
        if (auto* x = dyn_cast<SwitchStmt>(s)) {
            K("Switch", s);
            child("cond", x->getCond());
            child("body", x->getBody());
            return;
        }
        if (auto* x = dyn_cast<CaseStmt>(s)) {
            K("Case", s);
            child("v", x->getLHS());
            child("sub", x->getSubStmt());
            return;
        }
        if (auto* x = dyn_cast<DefaultStmt>(s)) {
            K("Default", s);
            child("sub", x->getSubStmt());
            return;
        }
        if (isa<BreakStmt>(s)) { K("Break", s); return; }
        if (isa<ContinueStmt>(s)) { K("Continue", s); return; }
        if (isa<NullStmt>(s)) { K("Null_", s); return; }
        if (isa<GotoStmt>(s)) { K("Goto", s); return; }
        if (auto* x = dyn_cast<CXXTryStmt>(s)) {
            K("Try", s);
            child("body", x->getTryBlock());
            J.attributeBegin("handlers");
            J.arrayBegin();
            for (unsigned i = 0; i < x->getNumHandlers(); ++i) {
                const CXXCatchStmt* h = x->getHandler(i);
                J.objectBegin();
                J.attribute("l", (int64_t)line(h->getBeginLoc()));
                if (h->getExceptionDecl()) {
                    J.attribute("t", ty(h->getCaughtType()));
                    J.attribute("n", h->getExceptionDecl()->getNameAsString());
                    J.attribute("std", derivesFromStdException(h->getCaughtType()));
                } else {
                    J.attribute("t", "...");
                }
                child("body", h->getHandlerBlock());
                J.objectEnd();
            }
            J.arrayEnd();
            J.attributeEnd();
            return;
        }
        if (auto* x = dyn_cast<OMPExecutableDirective>(s)) {
            K("OMP", s);
            J.attribute("dir", x->getStmtClassName());
            J.attributeBegin("clauses");
            J.arrayBegin();
            for (const OMPClause* c : x->clauses()) {
                if (!c || c->isImplicit()) continue;
                std::string cs;
                llvm::raw_string_ostream os(cs);
                OMPClausePrinter pr(os, PP);
                pr.Visit(const_cast<OMPClause*>(c));
                os.flush();
                J.value(cs);
            }
            J.arrayEnd();
            J.attributeEnd();
            if (x->hasAssociatedStmt()) {
                const Stmt* st = x->getInnermostCapturedStmt() ? x->getInnermostCapturedStmt()->getCapturedStmt() : nullptr;
                child("body", st);
            }
            return;
        }
        if (auto* x = dyn_cast<CXXTypeidExpr>(s)) {
            K("Typeid", s);
            if (x->isTypeOperand()) {
                J.attribute("of", ty(x->getTypeOperandSourceInfo()->getType()));
            } else {
                child("e", x->getExprOperand());
            }
            return;
        }
        // ---- fallback
        {
            std::string k = std::string("?") + s->getStmtClassName();
            J.attribute("k", k);
            J.attribute("l", (int64_t)line(s->getBeginLoc()));
            if (auto* e = dyn_cast<Expr>(s)) J.attribute("t", ty(e->getType()));
            J.attributeBegin("c");
            J.arrayBegin();
            for (const Stmt* c : s->children()) node(c);
            J.arrayEnd();
            J.attributeEnd();
        }
    }
};

class Visitor : public RecursiveASTVisitor<Visitor> {
public:
    Visitor(ASTContext& ctx, llvm::raw_ostream& os) : Ctx(ctx), SM(ctx.getSourceManager()), OS(os) {
        if (!FilesRe.empty()) filesRe = std::make_unique<llvm::Regex>(FilesRe);
        if (!FnRe.empty()) fnRe = std::make_unique<llvm::Regex>(FnRe);
    }
    bool shouldVisitTemplateInstantiations() const { return false; }
    bool shouldVisitImplicitCode() const { return false; }

    bool wanted(SourceLocation l) {
        if (l.isInvalid()) return false;
        SourceLocation el = SM.getExpansionLoc(l);
        if (!filesRe) return SM.isInMainFile(el);
        if (SM.isInMainFile(el)) return true;
        FileID fid = SM.getFileID(el);
        auto it = fileCache.find(fid);
        if (it != fileCache.end()) return it->second;
        bool r = filesRe->match(SM.getFilename(el));
        fileCache[fid] = r;
        return r;
    }

    bool VisitFunctionDecl(FunctionDecl* fd) {
        if (!fd->isThisDeclarationADefinition() || !fd->hasBody()) return true;
        if (fd->isImplicit() || fd->isDefaulted() || fd->isDeleted()) return true;
        if (!wanted(fd->getLocation())) return true;
        // lambdas' call operators are dumped inline
        if (auto* md = dyn_cast<CXXMethodDecl>(fd))
            if (md->getParent()->isLambda()) return true;
        std::string q = Dumper::qname(fd);
        bool light = NoBody;
        if (fnRe && !fnRe->match(q)) {
            if (!RestLight) return true;
            light = true;
        }

        std::string buf;
        llvm::raw_string_ostream bos(buf);
        json::OStream J(bos);
        Dumper D(Ctx, J);
        J.objectBegin();
        J.attribute("e", "fn");
        J.attribute("q", q);
        J.attribute("n", fd->getNameAsString());
        J.attribute("sig", D.ty(fd->getType()));
        J.attribute("ret", D.ty(fd->getReturnType()));
        J.attribute("file", D.file(fd->getLocation()));
        J.attribute("l", (int64_t)D.line(fd->getLocation()));
        J.attribute("l_end", (int64_t)D.line(fd->getEndLoc()));
        if (fd->isTemplated()) J.attribute("tmpl", true);
        if (fd->getTemplateSpecializationKind() == TSK_ExplicitSpecialization) J.attribute("spec", true);
        D.targs(fd);
        if (auto* md = dyn_cast<CXXMethodDecl>(fd)) {
            J.attribute("cls", Dumper::qname(md->getParent()));
            if (md->isConst()) J.attribute("const", true);
            if (md->isVirtual()) J.attribute("virt", true);
            if (md->isStatic()) J.attribute("static", true);
            if (isa<CXXConstructorDecl>(md)) J.attribute("ctor", true);
            if (isa<CXXDestructorDecl>(md)) J.attribute("dtor", true);
        }
        if (auto* fpt = fd->getType()->getAs<FunctionProtoType>()) {
            auto est = fpt->getExceptionSpecType();
            if (est == EST_BasicNoexcept || est == EST_NoexceptTrue || est == EST_NoThrow || est == EST_DynamicNone) J.attribute("noexcept", true);
        }
        J.attributeBegin("params");
        J.arrayBegin();
        for (auto* p : fd->parameters()) D.varDecl(p);
        J.arrayEnd();
        J.attributeEnd();

        // body dumped to a side buffer when --no-body so that summaries are still collected
        std::string bodyBuf;
        if (light) {
            J.attribute("light", true);
            llvm::raw_string_ostream sos(bodyBuf);
            json::OStream SJ(sos);
            Dumper SD(Ctx, SJ);
            SJ.objectBegin();
            if (auto* cd = dyn_cast<CXXConstructorDecl>(fd)) {
                SJ.attributeBegin("inits");
                SJ.arrayBegin();
                for (const auto* ci : cd->inits()) if (ci->getInit()) SD.node(ci->getInit());
                SJ.arrayEnd();
                SJ.attributeEnd();
            }
            SD.child("body", fd->getBody());
            SJ.objectEnd();
            D.callees = std::move(SD.callees);
            D.throwsV = std::move(SD.throwsV);
            D.mrefs = std::move(SD.mrefs);
        } else {
            if (auto* cd = dyn_cast<CXXConstructorDecl>(fd)) {
                J.attributeBegin("inits");
                J.arrayBegin();
                for (const auto* ci : cd->inits()) {
                    J.objectBegin();
                    if (ci->isAnyMemberInitializer()) J.attribute("member", ci->getAnyMember()->getNameAsString());
                    else if (ci->isBaseInitializer()) J.attribute("base", D.ty(QualType(ci->getBaseClass(), 0)));
                    else if (ci->isDelegatingInitializer()) J.attribute("delegating", true);
                    if (!ci->isWritten()) J.attribute("implicit", true);
                    if (ci->getInit()) D.child("init", ci->getInit());
                    J.objectEnd();
                }
                J.arrayEnd();
                J.attributeEnd();
            }
            D.child("body", fd->getBody());
        }
        J.attributeBegin("callees");
        J.arrayBegin();
        for (auto& c : D.callees) J.value(c);
        J.arrayEnd();
        J.attributeEnd();
        J.attributeBegin("mrefs");
        J.arrayBegin();
        for (auto& c : D.mrefs) J.value(c);
        J.arrayEnd();
        J.attributeEnd();
        J.attributeBegin("throws");
        J.arrayBegin();
        for (auto& t : D.throwsV) J.value(t);
        J.arrayEnd();
        J.attributeEnd();
        J.objectEnd();
        bos.flush();
        OS << buf << "\n";
        return true;
    }

    bool VisitCXXRecordDecl(CXXRecordDecl* rd) {
        if (!rd->isThisDeclarationADefinition()) return true;
        if (rd->isLambda() || rd->isImplicit()) return true;
        if (!wanted(rd->getLocation())) return true;
        std::string buf;
        llvm::raw_string_ostream bos(buf);
        json::OStream J(bos);
        Dumper D(Ctx, J);
        J.objectBegin();
        J.attribute("e", "rec");
        J.attribute("q", Dumper::qname(rd));
        J.attribute("file", D.file(rd->getLocation()));
        J.attribute("l", (int64_t)D.line(rd->getLocation()));
        if (rd->getDescribedClassTemplate()) J.attribute("tmpl", true);
        if (isa<ClassTemplateSpecializationDecl>(rd)) {
            J.attribute("spec", true);
            J.attribute("spec_t", D.ty(Ctx.getRecordType(rd)));
        }
        J.attributeBegin("bases");
        J.arrayBegin();
        for (const auto& b : rd->bases()) {
            J.objectBegin();
            J.attribute("t", D.ty(b.getType()));
            if (auto* brd = b.getType()->getAsCXXRecordDecl()) J.attribute("q", Dumper::qname(brd));
            J.objectEnd();
        }
        J.arrayEnd();
        J.attributeEnd();
        J.attributeBegin("fields");
        J.arrayBegin();
        for (const auto* f : rd->fields()) {
            J.objectBegin();
            J.attribute("n", f->getNameAsString());
            J.attribute("t", D.ty(f->getType()));
            J.attribute("ct", D.ty(f->getType().getCanonicalType()));
            J.attribute("l", (int64_t)D.line(f->getLocation()));
            if (f->isMutable()) J.attribute("mutable", true);
            if (f->getType().isConstQualified()) J.attribute("const", true);
            if (f->hasInClassInitializer() && f->getInClassInitializer()) D.child("init", f->getInClassInitializer());
            J.objectEnd();
        }
        J.arrayEnd();
        J.attributeEnd();
        J.attributeBegin("svars");
        J.arrayBegin();
        for (const auto* d : rd->decls()) {
            if (auto* v = dyn_cast<VarDecl>(d)) {
                J.objectBegin();
                J.attribute("n", v->getNameAsString());
                J.attribute("t", D.ty(v->getType()));
                if (v->hasInit()) D.child("init", v->getInit());
                J.objectEnd();
            }
        }
        J.arrayEnd();
        J.attributeEnd();
        J.attributeBegin("methods");
        J.arrayBegin();
        auto emitMethod = [&](const CXXMethodDecl* m, bool tmpl) {
            if (m->isImplicit()) return;
            J.objectBegin();
            J.attribute("n", m->getNameAsString());
            J.attribute("sig", D.ty(m->getType()));
            if (m->isConst()) J.attribute("const", true);
            if (m->isVirtual()) J.attribute("virt", true);
            if (m->isStatic()) J.attribute("static", true);
            if (tmpl) J.attribute("tmpl", true);
            if (m->isDeleted()) J.attribute("deleted", true);
            if (m->isDefaulted()) J.attribute("defaulted", true);
            J.attribute("access", (int64_t)m->getAccess());
            J.attribute("l", (int64_t)D.line(m->getLocation()));
            J.objectEnd();
        };
        for (const auto* d : rd->decls()) {
            if (auto* m = dyn_cast<CXXMethodDecl>(d)) emitMethod(m, false);
            else if (auto* ft = dyn_cast<FunctionTemplateDecl>(d))
                if (auto* m = dyn_cast<CXXMethodDecl>(ft->getTemplatedDecl())) emitMethod(m, true);
        }
        J.arrayEnd();
        J.attributeEnd();
        J.objectEnd();
        bos.flush();
        OS << buf << "\n";
        return true;
    }

    bool VisitEnumDecl(EnumDecl* ed) {
        if (!ed->isThisDeclarationADefinition()) return true;
        if (!wanted(ed->getLocation())) return true;
        std::string buf;
        llvm::raw_string_ostream bos(buf);
        json::OStream J(bos);
        Dumper D(Ctx, J);
        J.objectBegin();
        J.attribute("e", "enum");
        J.attribute("q", Dumper::qname(ed));
        J.attribute("file", D.file(ed->getLocation()));
        J.attribute("l", (int64_t)D.line(ed->getLocation()));
        if (ed->isScoped()) J.attribute("scoped", true);
        J.attributeBegin("items");
        J.arrayBegin();
        for (const auto* ec : ed->enumerators()) {
            J.objectBegin();
            J.attribute("n", ec->getNameAsString());
            J.attribute("v", ec->getInitVal().getExtValue());
            J.attribute("l", (int64_t)D.line(ec->getLocation()));
            J.objectEnd();
        }
        J.arrayEnd();
        J.attributeEnd();
        J.objectEnd();
        bos.flush();
        OS << buf << "\n";
        return true;
    }

    bool VisitVarDecl(VarDecl* vd) {
        if (vd->isLocalVarDeclOrParm()) return true;
        if (isa<ParmVarDecl>(vd)) return true;
        if (!vd->hasInit()) return true;
        if (vd->getInit() != vd->getAnyInitializer()) { /* fine */ }
        if (!vd->isThisDeclarationADefinition() && !vd->isStaticDataMember()) return true;
        if (!wanted(vd->getLocation())) return true;
        if (isa<VarTemplateSpecializationDecl>(vd)) return true;
        std::string buf;
        llvm::raw_string_ostream bos(buf);
        json::OStream J(bos);
        Dumper D(Ctx, J);
        J.objectBegin();
        J.attribute("e", "var");
        J.attribute("q", Dumper::qname(vd));
        J.attribute("n", vd->getNameAsString());
        J.attribute("t", D.ty(vd->getType()));
        J.attribute("file", D.file(vd->getLocation()));
        J.attribute("l", (int64_t)D.line(vd->getLocation()));
        if (vd->isConstexpr()) J.attribute("constexpr", true);
        if (vd->getType().isConstQualified()) J.attribute("const", true);
        if (!vd->getType()->isDependentType() && !vd->getInit()->isValueDependent()) {
            if (vd->getType()->isArithmeticType() || vd->getType()->isEnumeralType()) {
                if (const APValue* v = vd->evaluateValue()) {
                    if (v->isInt()) J.attribute("ev", v->getInt().getExtValue());
                    else if (v->isFloat()) {
                        llvm::SmallString<32> s;
                        v->getFloat().toString(s, 17);
                        J.attribute("fv", s.str());
                    }
                }
            }
        }
        D.child("init", vd->getInit());
        J.objectEnd();
        bos.flush();
        OS << buf << "\n";
        return true;
    }

private:
    ASTContext& Ctx;
    SourceManager& SM;
    llvm::raw_ostream& OS;
    std::unique_ptr<llvm::Regex> filesRe, fnRe;
    llvm::DenseMap<FileID, bool> fileCache;
};

class Consumer : public ASTConsumer {
public:
    explicit Consumer(CompilerInstance& ci) : CI(ci) {}
    void HandleTranslationUnit(ASTContext& ctx) override {
        std::error_code ec;
        llvm::raw_fd_ostream os(OutFile, ec);
        if (ec) {
            llvm::errs() << "opmfacts: cannot open " << OutFile << ": " << ec.message() << "\n";
            exit(3);
        }
        Visitor v(ctx, os);
        v.TraverseDecl(ctx.getTranslationUnitDecl());
        unsigned nerr = CI.getDiagnostics().getClient()->getNumErrors();
        os << "{\"e\":\"unit\",\"errors\":" << nerr << "}\n";
    }
    CompilerInstance& CI;
};

class Action : public ASTFrontendAction {
public:
    std::unique_ptr<ASTConsumer> CreateASTConsumer(CompilerInstance& ci, llvm::StringRef) override {
        return std::make_unique<Consumer>(ci);
    }
};

} // namespace

int main(int argc, const char** argv) {
    auto opts = CommonOptionsParser::create(argc, argv, Cat);
    if (!opts) {
        llvm::errs() << llvm::toString(opts.takeError()) << "\n";
        return 2;
    }
    ClangTool tool(opts->getCompilations(), opts->getSourcePathList());
    return tool.run(newFrontendActionFactory<Action>().get());
}
