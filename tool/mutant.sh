#!/bin/bash
# tool/mutant.sh <property> <file-relative-to-repo> <sed-expression>   — run one check on a scratch copy with one edit
set -e
P=$1; F=$2; E=$3
S=/tmp/vmut_$$
mkdir -p $S
rsync -a --exclude '*.inc' /repo/opm $S/
sed -i -E "$E" "$S/$F"
if cmp -s "$S/$F" "/repo/$F"; then echo "MUTANT-NOOP (sed changed nothing)"; rm -rf $S; exit 3; fi
cd /verif && VERIF_REPORTS=$S/reports ./check $P --root $S | grep -E "VIOLATION|ANALYSIS-BROKEN|^\s+/repo" | cut -c1-260 | head -${4:-6}
rm -rf $S
