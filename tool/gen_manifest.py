#!/usr/bin/env python3
"""Regenerate MANIFEST.json from the table below (kept next to the rules so that it stays current)."""
import json
import os

VERIF = os.path.dirname(os.path.dirname(os.path.abspath(__file__)))

BASELINE_OFF = "/verif/tool/baseline.sh"

CLAIMED = {
    "C11": dict(
        technique="static analysis: member-coverage lint over the clang AST (every data member of every in-scope class with serializeOp must be named in serializeOp)",
        text="Decides the structural necessary condition the property's rationale names: every non-static data member of every class contained in EclipseState/Schedule/SummaryConfig/SummaryState/UDQState/Action::State/WellTestState/RestartValue that defines serializeOp is transferred by it (or is exempt as process-local/derived/documented, with the recomputation of derived members checked). Not decided: that the generic Serializer encodes and decodes each transferred member to an equal value, byte counts.",
        note="Trusted: clang 14 AST of all 364 library units with the build's flags; tables/c11_exempt.json (10 entries, one reason each). operator== coverage is reported as information only.",
        design="DESIGN.md §4 C11"),
}

NOT_APPLICABLE = {
    "C01": "re-layout invariance relates the parser's outputs on two runtime strings; no structural clause is a necessary condition that static analysis can decide without a brittle text match (DESIGN.md §6)",
    "C14": "numerical statements about interpolation over user tables (node values, bracketing, continuity, saturation-pressure inversion); nothing in the shape of the code decides them (DESIGN.md §6)",
    "C15": "numerical relations over runtime tables and saturation histories (end-point mapping, identity scaling, hysteresis scanning curves) (DESIGN.md §6)",
    "C19": "print/parse round trip relates a formatter and a tokenizer through runtime strings; the structural part (delimiter agreement) is too weak to stand for the property (DESIGN.md §6)",
}

PENDING = "check under construction in this round; not claimed until its rules run clean on the pinned tree (see DESIGN.md §4)"


def main():
    props = [json.loads(l) for l in open(os.path.join(VERIF, "properties.jsonl"))]
    checks = []
    na = []
    for p in props:
        pid = p["id"]
        if pid in CLAIMED and os.path.exists(os.path.join(VERIF, "rules", pid + ".py")):
            c = CLAIMED[pid]
            checks.append(dict(
                property_id=pid,
                quick_cmd="./check %s --tier quick" % pid,
                thorough_cmd="./check %s --tier thorough" % pid,
                evidence_file="/verif/evidence/%s.json" % pid,
                replay_cmd_template="./check %s --tier quick --replay {path}" % pid,
                engine="opmfacts+rules",
                level_claimed=dict(category=c.get("category", "other"), text=c["text"], design_ref=c["design"]),
                level_note=c["note"],
                technique=c["technique"],
            ))
        else:
            na.append(dict(property_id=pid, reason=NOT_APPLICABLE.get(pid, PENDING)))
    m = dict(
        version=1,
        setup_cmd="./tool/build.sh",
        hooks=dict(guard="OPM_COMMON_VERIF", enable="none needed: the checks parse /repo's working tree with clang; no hook is compiled in",
                   baseline_off_cmd=BASELINE_OFF, source_commits=[], add_only=True),
        engines=[dict(name="opmfacts+rules", path="/verif/tool/opmfacts.cc, /verif/verif, /verif/rules",
                      serves_properties=[c["property_id"] for c in checks],
                      kind_free_text="libTooling (clang 14) fact extractor emitting resolved ASTs of /repo's current sources; python rule modules decide; no code of the repository is executed")],
        checks=checks,
        not_applicable=na,
        notes="Static analysis only. exit 0 = all rule instances hold; exit 1 + VIOLATION lines = a construct violates a rule; exit 2 = analysis broken (anchor vanished / floor not met / parse failure), never a verdict. Known findings: /verif/known_findings.json.",
    )
    with open(os.path.join(VERIF, "MANIFEST.json"), "w") as fh:
        json.dump(m, fh, indent=1)
        fh.write("\n")


if __name__ == "__main__":
    main()
