#!/usr/bin/env python3
"""Regenerate MANIFEST.json from the table below (kept next to the rules so that it stays current)."""
import json
import os

VERIF = os.path.dirname(os.path.dirname(os.path.abspath(__file__)))

BASELINE_OFF = "/verif/tool/baseline.sh"

CLAIMED = {
    "C06": dict(
        technique="static analysis: dimension inference (L, M, T exponents) over the COMPDAT/COMPTRAJ code and the Peaceman helpers seeded from the keyword item dimensions, dataflow shape rule on the replace-in-place branch, per-path add-count rule on the connection-set rebuild loops (clang AST)",
        text="Claimed narrowly. Decides three structural clauses: (a) every assignment to r0, rw, re, Kh, CF, Ke, connection length and the Peaceman denominator, every + / - / comparison and every log/exp argument in loadCOMPDAT, loadCOMPTRAJ, effectiveRadius, peacemanDenominator, effectiveExtent and inverse_peaceman is dimensionally homogeneous; (b) re-entering COMPDAT/COMPTRAJ overwrites exactly the found element and carries completion number, sort value, segment and perforation range over, and nothing else modifies the container; (c) each of the 8 Well functions that rebuild the connection set adds every connection exactly once on every path through the loop body, in order, with the old ordering mode and well head. NOT decided: the numeric relation CF (ln(r0/rw)+S) = 2 pi Kh, the constant 0.28, the direction permutation, equality of explicit and computed values - a dimensionally consistent wrong formula passes.",
        note="Trusted: dimension table in rules/C06.py; numeric literals are dimension-polymorphic.",
        design="DESIGN.md §4 C06"),
    "C13": dict(
        technique="static analysis: effect analysis of the OpenMP parallel-for (stores and callee closure), cache-coherence / co-update rule on the index maps, shape rule on resetACTNUM, writer/reader table agreement for EGRID (clang AST)",
        text="Decides three structural clauses: (a) thread-count independence of the cell volumes - every iteration of the (only) OpenMP loop stores only to its own element or loop-local variables and its callee closure (depth 3) consists of const members and functions without static, global or mutable writes; (b) whoever writes one of ACTNUM / active count / active->global / global->active writes all four and invalidates the cached volumes, geometry writers outside construction invalidate the cache, and resetACTNUM builds mutually inverse maps (count-before-increment, -1 for inactive cells, every cell visited); (c) every EGRID array the readers require is written by EclipseGrid::save with the same element type and lengths cross from_si on save and to_si on load. GRIDUNIT rescales every stored length array (incl. the retained input COORD/ZCORN that save() writes) exactly once, guard and argument agreeing. Not decided: volumes, centres, depths, equivalence of input forms, additivity (numeric).",
        note="Trusted: std:: callees are re-entrant; one allow-listed geometry writer (fixupZCORN, idempotent after construction).",
        design="DESIGN.md §4 C13"),
    "C12": dict(
        technique="static analysis: index-role typing (active / global / input-box) of every subscript in FieldProps.cpp and FieldData.hpp, stride and coverage rules, call-site kind agreement, enumerator/keyword/arithmetic pairing tables (clang AST)",
        text="Decides the structural necessary condition of 'the value in an active cell never depends on which other cells are inactive': containers are only subscripted with an index of their own role; block strides of multi-value arrays are the cell count of that role; storage addressed by global index is filled while visiting all cells of the box, not only the active ones; generic primitives are called with storage and index list of the same kind; keyword names, ScalarOperation enumerators and arithmetic are paired correctly (ADD/MULTIPLY/EQUALS/MINVALUE/MAXVALUE); record-driven handlers update the box before taking an index list. The OPERATE function table binds every name to the function of that name and each function returns the documented formula of R, X, alpha, beta. Not decided: the sequential semantics cell by cell (reference interpreter; runtime).",
        note="Trusted: the role table in rules/C12.py. Subscripts where only one side has a known role are counted, never flagged.",
        design="DESIGN.md §4 C12"),
    "C16": dict(
        category="translation_validation",
        technique="static analysis / translation validation: every member of the twelve hand-unrolled Evaluation<N> files is compared, statement list by statement list, with the generic implementation after unrolling its loops for N (clang AST, normalised); slot-uniformity lint; same-slot chain-rule lint on Math.hpp",
        text="Decides that the twelve unrolled specialisations, the generic static implementation and (loop bodies and value updates of) the dynamic implementation are the same program modulo loop unrolling - ~590 member pairs compared in statement order, so a wrong index in one slot of one specialisation, a skipped or doubled slot, or a changed operand order is a reported disagreement - and that each of the 20 derivative loops in Math.hpp writes slot i from slot i of every Evaluation argument, once, over all slots. Not decided: that the derivative formulas are the true derivatives (calculus), floating-point exactness.",
        note="Trusted: the layout accessors each specialisation declares (size, dstart_, dend_, valuepos_), checked by C16.included. Exception messages are ignored.",
        design="DESIGN.md §4 C16"),
    "C10": dict(
        technique="static analysis: agreement of writer and reader tables (array names, element types, record order) extracted from the clang AST of the summary writers and the three readers",
        text="Decides narrowly: every SMSPEC array the legacy reader requires is written with a compatible element type; the UNSMRY record sequence SEQHDR,(MINISTEP,PARAMS float)+ is what the scanner accepts; the two ESMRY writers are siblings and emit exactly the ordered (name,type) sequence the ESMRY reader checks; V<n> vectors are float; combine/splitSummaryNumber are inverse. NOT decided (stated plainly): the positional seek arithmetic of ESmry::loadData/ExtESmry (offsets as a function of vector count and position), the time axis and restart chaining - an off-by-one in an offset formula is not caught. A counter that shadows the size of a growing member container in the ESmry/ExtESmry constructors is not declared inside an enclosing loop (base-run chains).",
        note="Trusted: none beyond the AST. This check covers only the structural clause of the property.",
        design="DESIGN.md §4 C10"),
    "C07": dict(
        technique="static analysis: constants of EclIOdata.hpp against the published layout, switch/table pairing, write/read sequence extraction of the 16-byte header, bracket (head-data-tail) order rule per block loop, endian-flip pairing, sibling agreement of the block-geometry derivation (rational normal form), size formula normal form (clang AST)",
        text="Decides: the 28 layout constants equal the published Eclipse values (also catches symmetric changes the round-trip tests cannot see); both block tables pair each array type with its own constants; the binary header is written and read as 4+8+4+4+4 with both markers byte-swapped and checked; the formatted header is 30 characters; every block is written head-data-tail with head = tail = swapped byte count and the reader checks element-count range, short blocks and head == tail; each numeric type crosses the swap of its own type once in each direction; writer, reader and sizeOnDisk derive the block geometry identically incl. the C0NN adjustment; type strings map to the same enumerator in both directions; LOGI encoding; the sizeOnDiskBinary formula. Not decided: value round trip, number formatting (make_real_string_*), behaviour at specific lengths.",
        note="Trusted: tables/ecl_layout.json (published format constants).",
        design="DESIGN.md §4 C07"),
    "C08": dict(
        technique="static analysis: who-opens-how rule on the stream factories, statement-order rule on Restart::openExisting/openUnified, shape rule on the write-position search, and a cross-module agreement between the header bytes the writer emits (C07) and the bytes the rewind arithmetic subtracts",
        text="Decides the rewind protocol: existing unified files are opened in append mode only; openExisting is open -> (no position: return) -> resize_file(fname, writePos) -> seek to end, throwing on failure; nothing else truncates; openUnified creates / rejects a non-restart file / reopens at restartStepWritePosition(step); the position is lower_bound on the ordered step index (-1 if all stored steps are smaller); seekPosition subtracts exactly the 24 bytes / 30 characters the writer's header emits; unified output starts each step with SEQNUM. Not decided: byte-for-byte preservation of earlier steps and the crash clause (every truncation point reads back or raises) - these quantify over write histories and crash points and need fault enumeration at run time.",
        note="Trusted: C07.header_sums for the writer side. The crash/truncation clause of the property is explicitly not covered.",
        design="DESIGN.md §4 C08"),
    "C03": dict(
        technique="static analysis: copy-on-write / ownership rules - API inventory of ptr_member/map_member, intraprocedural alias-use classification of every handle obtained from shared storage, write-through detection on shared_ptr members with clone-then-modify dominance, who-may-write tables (clang AST of all 364 library units)",
        text="Decides the structural necessary condition of causality: nothing writes through storage shared between ScheduleState snapshots. ptr_member can only hand out const references; each of the ~110 call sites of a map_member accessor that can yield a mutable handle (and every iteration over a map_member) is classified (copied / const / mutable escape) and mutable escapes are confined to an allow-list with reasons; member functions of the 4 classes with shared_ptr members never write through them unless the member was re-pointed to a fresh copy earlier on every path; callers of the two in-place connection mutators clone first; snapshots[arithmetic index] is only read; writes to Schedule members other than snapshots come from an enumerated table; no hidden static state; the next report step is a copy with every per-step member reset. Not decided: splitting of the input into blocks, equality of states under truncation of the input.",
        note="Trusted: verif/cow.py (intraprocedural; calls judged by the callee's parameter types), tables/c03_*.json (allow-lists with one reason per entry). A handle passed to a function taking a non-const reference is treated as a write.",
        design="DESIGN.md §4 C03"),
    "C04": dict(
        technique="static analysis: structural order/shape rules on Schedule::applyAction and iterateScheduleSection, who-may-read rule on the action-mode parameters of HandlerContext, plus the C03 copy-on-write rules",
        text="Decides the protocol of applyAction (unconditional truncate to n+1, append every keyword to block n and handle it with actionx_mode=true, apply global WPIMULT, close the step, re-iterate blocks n+1..end with keepKeywords=true; argument expressions checked), that only the documented keywords (WELPI, UDQ '?') read the action-mode parameters so every other handler is mode-independent, that the only direct state write is the ACTIONX_WELL_EVENT marker, and - via the C03 rules - that keyword handling never writes through storage shared with earlier report steps. Not decided: state-by-state equality with the inlined schedule.",
        note="Trusted: as C03; MODE_READERS table in rules/C04.py.",
        design="DESIGN.md §4 C04"),
    "C17": dict(
        technique="static analysis: call-graph stratification of the recursive-descent UDQ parser, token-guard and associativity shape rules, and agreement of the name->token, name->implementation and implementation tables (clang AST)",
        text="Decides operator precedence and associativity as encoded in the parser's structure (each parse level calls only the next-tighter level or itself; parentheses restart at the loosest level; each level consumes exactly its own operator tokens; + - * / left-nested, ^ and comparisons right-recursive), consistency of the token classes, that every documented function/operator name is tokenised, registered with the right class and bound to the implementation of that name, that each implementation applies the operator or library function its name says, and operator pairing in UDQScalar/UDQSet arithmetic. Not decided: set arithmetic on concrete values with undefined elements, ASSIGN/DEFINE/UPDATE ordering over report steps.",
        note="Trusted: the documented precedence (property statement) and the documented meaning of each name (NAME_IMPL/NAME_TOKEN in rules/C17.py).",
        design="DESIGN.md §4 C17"),
    "C18": dict(
        technique="static analysis: stratification and guards of the ACTIONX condition parser, switch/table pairing rules, a decision table of ActionX::ready extracted from its AST over five opaque atomic predicates, and who-may-apply rules on the call sites of Schedule::applyAction",
        text="Decides: AND binds tighter than OR and parentheses re-enter at OR (call-graph stratification), each level consumes its own token and builds a node of that type, trailing tokens are rejected, token<->operator pairing in scalarComparisonHolds/isComparisonOperator/tokenizer, OR=union with neutral false and AND=intersection with neutral true down to std::set_union/set_intersection, the complete 32-row decision table of ActionX::ready, run bookkeeping in State, and that ACTIONX objects are applied only when drawn from Actions::pending and that the run is then recorded. Not decided: evaluation against concrete summary states, wildcard matching, date arithmetic.",
        note="Trusted: documented ACTIONX condition syntax frozen in rules/C18.py. Python-driven and by-name application of actions are outside the triggering limits and are not subject to the gate rule.",
        design="DESIGN.md §4 C18"),
    "C05": dict(
        technique="static analysis: writer/reader table agreement over the clang ASTs of Aggregate{Well,Connection,Group,MSW}Data.cpp, rst/{well,connection,group,segment}.cpp and LoadRestart.cpp (slot, unit measure, summary vector, record index), with numeric equivalence classes of the measures taken from the UnitSystem tables and an index-provenance analysis for the segment records",
        text="Decides the agreement of the restart writer's and reader's tables for the per-well, per-connection, per-group and per-segment arrays: every slot a load-bearing reader consumes is assigned by the writer; the measure the reader converts with is the measure the writer converted with, or the measure of the summary vector stored there (multisets, up to measures that have identical factors in all four unit systems); fields kept in output units flow only into UDAValue updates; the summary vector restored from an X* slot is the one stored there (derived vectors from the slots their definition names); slot names agree with the stored mnemonic; ISEG/RSEG records are written and fetched at segmentNumber()-1; array names and element types the readers request are the ones RestartIO::save writes; integer encoders/decoders of well and group control modes, guide-rate targets and connection direction are inverse tables; the ACTIONX run record (IACT/SACT items for max_run, run count +1/-1, min_wait, time of the last run relative to the start) is read from the items it was written to with the same measure; network and analytic/numeric aquifer arrays are included in the slot and unit rules, conversion chains being compared as signed products of unit factors in all four systems. The gas and water halves of the group reconstruction in Group.cpp read corresponding restart fields. NOT decided: value equality after a real save/load (precision, solution arrays, UDQ/ACTIONX state), agreement of well/group record order (loop position vs seqIndex(): a runtime invariant), and equivalence of the restarted schedule (Schedule::cmp).",
        note="Trusted: mnemonic->measure and slot-name->mnemonic grammars in rules/C05.py; tables/c05_deferred.json, c05_reader_only.json, c05_positional.json (one reason per entry). A reader field nobody uses is reported as information, not as a violation.",
        design="DESIGN.md §4 C05"),
    "C20": dict(
        technique="static analysis: call-graph closure of the parse/build/open entry points over the resolved ASTs of all library units; exception-type, terminator-reachability, noexcept/destructor-escape and catch-site completeness rules on that closure",
        text="Decides only the exception-discipline clause of the property (a necessary condition: breaking it turns an input error into process termination): in the closure of Parser::parse*, the EclipseState/Schedule/SummaryConfig constructors and the result-file readers, every throw expression throws a type derived from std::exception (or rethrows), no exit/abort/terminate call is reachable except the exits the caller configured (ParseContext EXIT1, ErrorGuard), no noexcept function or destructor contains a throw or calls a directly throwing repository function outside a try block, the wrapping catch sites cover std::exception and rethrow a documented type, and a loop that searches a string until npos while editing it restarts the search beyond the inserted text (the one loop shape whose termination is argued); token cursors of the hand-written scanners (UDQ and ACTIONX parsers and tokenizers, ACTIONX condition splitter, UNSMRY array scan - every index that the code itself compares with V.size(), uses in V[idx] and advances) are subscripted only where a preceding test on every path has established idx < V.size() since the last advance, and where the end is tested with equality they are never advanced from a state that may already be the end (branch-sensitive typestate over the structured AST); a container taken from DeckItem::getData is dereferenced with front()/back()/[k] only where its size is tested; C functions that read up to a NUL terminator never get the data() of a vector<char> or string_view. NOT decided: bounds of any other index arithmetic, termination in general, out-of-bounds access, iterator/string_view arithmetic, hangs, undefined behaviour - these are runtime properties (sanitizers, fuzzing) outside this technique.",
        note="Trusted: call graph from resolved callee names with overloads merged and every override of a same-named virtual included (over-approximation of reachability). Exceptions escaping from the standard library (std::stoi, .at()) are std::exception by construction.",
        design="DESIGN.md §4 C20"),
    "C02": dict(
        technique="static analysis: table rules over the clang AST of UnitSystem.cpp/Units.hpp (reciprocal tables, dimensional formulas, compile-time constants vs an independent physical table, normal form of the conversion formulas) plus a scan of every compiled-in keyword's dimension strings",
        text="Decides, for the conversion factors as written: to_/from_ tables of all five systems are mutual reciprocals entry by entry (230 pairs), every measure has the same frozen dimensional formula in METRIC/FIELD/LAB/PVT-M, offsets exist only for temperature, init<SYS> wires tables and registers the same 31 dimension names with the system's own constants, every one of the 163 constants equals its physical definition (1e-12), to_si/from_si/Dimension::convert* have the affine normal forms that make them inverse, composite dimensions are product/quotient, every dimension string of the 1184 compiled-in keywords resolves in all four systems, the output conversions are mirror images, and the three in-place deck-unit<->SI conversions of DeckItem choose the default vs active dimension for the same set of value statuses and are mutually inverse. Not decided: that each keyword item carries the physically right dimension; end-to-end equality of SI values between two decks.",
        note="Trusted: clang's compile-time evaluation of the constants; tables/measure_dims.json and tables/physical_units.json (independent oracle written from SI definitions and the Eclipse unit conventions).",
        design="DESIGN.md §4 C02"),
    "C09": dict(
        technique="static analysis: the 550-entry keyword->function table of Summary.cpp extracted as terms and checked against a mnemonic grammar, sibling levels, three classifiers of 'cumulative', and shape rules on the flow primitives and evaluators",
        text="Decides: every governed entry of the evaluator table has the term its mnemonic implies (phase, producer/injector, rate vs rate x step length, history, ratios); W/G/F siblings agree; a keyword is accumulated in the table iff SummaryState adds it up iff SummaryConfig types it Total (which is what switches on the well/own-group efficiency factor); every flow primitive skips wells that are absent or SHUT and weights by efac(); phase->unit pairing; every evaluator converts with from_si; the efficiency-factor walk up the group tree. Not decided: numeric accumulation over a history, traversal of a concrete group tree.",
        note="Trusted: the mnemonic grammar in rules/C09.py (documented Eclipse naming), tables/c09_rate_units.json. Shape drift of the string classifiers yields exit 2, never a verdict.",
        design="DESIGN.md §4 C09"),
    "C11": dict(
        technique="static analysis: member-coverage lint over the clang AST (every data member of every in-scope class with serializeOp must be named in serializeOp)",
        text="Decides the structural necessary condition the property's rationale names: every non-static data member of every class contained in EclipseState/Schedule/SummaryConfig/SummaryState/UDQState/Action::State/WellTestState/RestartValue that defines serializeOp is transferred by it (or is exempt as process-local/derived/documented, with the recomputation of derived members checked). Not decided: that the generic Serializer encodes and decodes each transferred member to an equal value, byte counts.",
        note="Trusted: clang 14 AST of all 364 library units with the build's flags; tables/c11_exempt.json (10 entries, one reason each). operator== coverage is reported as information only.",
        design="DESIGN.md §4 C11"),
}

# sentences added to a claim after its first version (rules added later); appended to the claim text
EXTRA = {
    "C05": "Also decided: a lazily built mutable cache (UDQActive::output_data behind iuad(), SummaryState name lists, ...) is emptied on every path from a modification of the member it is built from to the return of that function.",
    "C08": "Also decided: ERst::initUnified visits every array, records index and report number of each SEQNUM in the same branch and builds half-open ranges [start(k), start(k+1)) stored under report number k; every loop over a range is first <= i < second; the record-framing rules of the unformatted reader (head/tail, payload, byte order) are evaluated for this property too.",
    "C09": "Also decided: every branch of mul_unit / div_unit returns a unit whose SI-to-deck factor is the product / quotient of its operands' factors in all four unit systems.",
    "C07": "Also decided: every formatted element is printed into a buffer large enough for its widest rendering plus the terminator (IX double format included), and every formatted writer starts a new line on the running element ordinal modulo the column count the reader assumes for that type (the unblocked CHAR writer: the block size is a multiple of the column count). The writers tag int/float/double/bool vectors as INTE/REAL/DOUB/LOGI, the unformatted reader reads the payload between head and tail markers, the pieces cut from the printf rendering follow from its precision, sizeOnDiskFormatted equals (as a symbolic term) what writeFormattedArray emits, and no sticky manipulator is applied to the file stream.",
    "C10": "Also decided: the index list ExtESmry::loadData hands to load_esmry together with the request vector (used there as request[list[n]]) holds iteration ordinals - a zero-initialised counter appended without side effect and incremented exactly once, unconditionally, per request entry. ExtESmry seeks vector k at RSTEP header + two INTE arrays + k x (header + REAL array) (symbolic term; header bytes taken from writeBinaryHeader), and the writer removes a stale ESMRY file unconditionally because the converter refuses to overwrite one.",
    "C03": "Also decided: the next-step constructor that takes an end time differs from the one that does not in nothing but m_end_time (the last state of a schedule is built without one); where an update method installs a new value only if it compares different (Well::update*, Group::updateProduction, GuideRateConfig::update_model), the operator== of that class compares every data member; a local variable named after a record item is initialised from the item of that name. An integer parameter validated by a throwing range guard is used outside its guards (the validated report step is the one acted on).",
    "C13": "Also decided: make_grid_units, EclipseGrid::save and the EGRID loader map the grid length-unit names METRES/FEET/CM to the same unit system; the NNC1/NNC2 cell numbers that save() stores as global index + 1 are decoded by EclIO::EGrid as (element - 1) through a parameter of kind global, never active (kinds derived from which ACTNUM map a parameter subscripts and which bound it is compared with). All implementations of global <-> (i,j,k) agree with the natural ordering (symbolic terms), GRIDHEAD slots 1..3 carry nx, ny, nz on both sides, and every corner coordinate is interpolated on its own pillar at its own depth.",
    "C18": "Also decided: an empty or cleared match is no set at all (MatchingEntities never keeps an empty-but-present set), so that false sub-conditions contribute no set to later unions and intersections. ASTNode::eval dispatches AND/OR to the fold over every child and everything else to the comparison of child 0 with child 1; inside the parser every sub-result is error-tested, operands are added in order and tokens consumed; a numeric MNTH operand is rounded to nearest.",
    "C17": "Also decided: every scalar (reduction) function - SUM, PROD, AVEA, AVEG, AVEH, MAX, MIN, NORM1, NORM2, NORMI - computes its documented formula over the defined values (canonical expression trees including the fold's initial value and step). The compound operators of UDQSet/UDQScalar are element-wise over the whole set with undefined operands propagating, and parse_factor consumes signs and parentheses as the grammar says.",
    "C04": "Also decided (shared with C03): a local variable named after a record item is initialised from the item of that name (numbered siblings K1/K2, I1/I2 included). The ACTIONX_WELL_EVENT marker is written while snapshots.back() is still the action's step.",
    "C12": "Also decided: in Box.cpp every declaration, default look-up, range assertion and extent/offset assignment stays on one axis (i/NX/I*/[0], j/NY/J*/[1], k/NZ/K*/[2]). assign_deck writes explicit values always and a defaulted entry never over a cell that has a value (truth table over all status pairs, both storages).",
    "C16": "Also decided: in Math.hpp a result that starts as a copy of an Evaluation argument and has its value replaced also has its derivatives rewritten slot by slot, cleared, or is assigned a scalar.",
    "C20": "Also decided: a range validator that rejects lo > hi tests the upper limit on hi; an integer taken from the deck is not used as a divisor without a zero test; the INCLUDE handler refuses a file that is already on the input stack and the record view is never extended across the end of the file it started in.",
    "C06": "Also decided: every connection selector of Well.cpp (WPIMULT, WELOPEN, COMPLUMP, WINJCLN, ...) compares the connection's I/J/K/completion number with the record item of that name, lower bounds with match_ge and upper bounds with match_le; in the per-cell loops of COMPDAT/COMPTRAJ a quantity that is tested against its sentinel and defaulted from the current cell has been assigned earlier in the same iteration. The stored CF, Kh and Peaceman denominator satisfy CF x denominator = angle x Kh on every path of loadCOMPDAT (monomial identity), the denominator is ln(r0/rw) + skin, I/J/K1/K2 are item - 1 and every layer K1..K2 gets a connection.",
    "C11": "Also decided: a process-local pointer that the owner's serializeOp re-binds after unpacking (Well::unit_system in Schedule::serializeOp) is re-bound in every instance - the call sits in range-for loops over the whole containers; the four pack/unpack drivers of the generic Serializer reset operation, pointer map, counter and buffer before every pass over the data.",
}

NOT_APPLICABLE = {
    "C01": "re-layout invariance relates the parser's outputs on two runtime strings; no structural clause is a necessary condition that static analysis can decide without a brittle text match (DESIGN.md §6)",
    "C14": "numerical statements about interpolation over user tables (node values, bracketing, continuity, saturation-pressure inversion); nothing in the shape of the code decides them (DESIGN.md §6)",
    "C15": "numerical relations over runtime tables and saturation histories (end-point mapping, identity scaling, hysteresis scanning curves) (DESIGN.md §6)",
    "C19": "print/parse round trip relates a formatter and a tokenizer through runtime strings; the structural part (delimiter agreement) is too weak to stand for the property (DESIGN.md §6)",
}

PENDING = "check under construction in this round; not claimed until its rules run clean on the pinned tree (see DESIGN.md §4)"


def main():
    props = [json.loads(l) for l in open(os.path.join(VERIF, "properties.jsonl"))]
    checks = []
    na = []
    for p in props:
        pid = p["id"]
        if pid in CLAIMED and os.path.exists(os.path.join(VERIF, "rules", pid + ".py")):
            c = CLAIMED[pid]
            checks.append(dict(
                property_id=pid,
                quick_cmd="./check %s --tier quick" % pid,
                thorough_cmd="./check %s --tier thorough" % pid,
                evidence_file="/verif/evidence/%s.json" % pid,
                replay_cmd_template="./check %s --tier quick --replay {path}" % pid,
                engine="opmfacts+rules",
                level_claimed=dict(category=c.get("category", "other"), text=(c["text"] + " " + EXTRA.get(pid, "")).strip(), design_ref=c["design"]),
                level_note=c["note"],
                technique=c["technique"],
            ))
        else:
            na.append(dict(property_id=pid, reason=NOT_APPLICABLE.get(pid, PENDING)))
    m = dict(
        version=1,
        setup_cmd="./tool/build.sh",
        hooks=dict(guard="OPM_COMMON_VERIF", enable="none needed: the checks parse /repo's working tree with clang; no hook is compiled in",
                   baseline_off_cmd=BASELINE_OFF, source_commits=[], add_only=True),
        engines=[dict(name="opmfacts+rules", path="/verif/tool/opmfacts.cc, /verif/verif, /verif/rules",
                      serves_properties=[c["property_id"] for c in checks],
                      kind_free_text="libTooling (clang 14) fact extractor emitting resolved ASTs of /repo's current sources; python rule modules decide; no code of the repository is executed")],
        checks=checks,
        not_applicable=na,
        notes="Static analysis only. exit 0 = all rule instances hold; exit 1 + VIOLATION lines = a construct violates a rule; exit 2 = analysis broken (anchor vanished / floor not met / parse failure), never a verdict. Known findings: /verif/known_findings.json.",
    )
    with open(os.path.join(VERIF, "MANIFEST.json"), "w") as fh:
        json.dump(m, fh, indent=1)
        fh.write("\n")


if __name__ == "__main__":
    main()
