// Concrete replay for the C16.unroll finding: the generic statically sized Evaluation (sizes > 12) rejects
// its own number of derivatives in createConstant(nVars, v) / createVariable(nVars, v, i) because the
// comparison is against the literal 0.   exit 1 = reproduces.
#include <opm/material/densead/Evaluation.hpp>
#include <opm/material/densead/Math.hpp>
#include <iostream>
int main() {
    int bad = 0;
    using E13 = Opm::DenseAd::Evaluation<double, 13>;
    using E3  = Opm::DenseAd::Evaluation<double, 3>;
    try { auto a = E3::createConstant(3, 2.0); std::cout << "size 3 : ok " << a.value() << "\n"; }
    catch (const std::exception& e) { std::cout << "size 3 : THROW " << e.what() << "\n"; ++bad; }
    try { auto a = E13::createConstant(13, 2.0); std::cout << "size 13: ok " << a.value() << "\n"; }
    catch (const std::exception& e) { std::cout << "size 13: THROW " << e.what() << "\n"; ++bad; }
    try { auto a = E13::createConstant(0, 2.0); std::cout << "size 13 asked for 0 derivatives: accepted (must be rejected)\n"; ++bad; }
    catch (const std::exception& e) { std::cout << "size 13 asked for 0 derivatives: rejected\n"; }
    return bad ? 1 : 0;
}
