// Concrete replay for the C20.cstr finding: ESmry::loadData(vectList) on a FORMATTED summary file reads one 17-character
// field into a std::vector<char>(17) and hands vector::data() to strtof, which needs a NUL terminator: strtof reads past
// the buffer (heap over-read; what it returns depends on the bytes that follow).  Run in /repo/tests; run under valgrind to
// see the invalid read.  exit 1 = a value loaded per vector differs from the value of the full load.
#include <opm/io/eclipse/ESmry.hpp>
#include <opm/io/eclipse/EclFile.hpp>
#include <opm/io/eclipse/EclOutput.hpp>
#include <cmath>
#include <filesystem>
#include <iostream>
#include <string>
#include <vector>

static void to_formatted(const std::string& in, const std::string& out)
{
    Opm::EclIO::EclFile f(in);
    f.loadData();
    Opm::EclIO::EclOutput o(out, true);
    const auto arrays = f.getList();
    for (std::size_t i = 0; i < arrays.size(); ++i) {
        const auto& [name, type, size] = arrays[i];
        (void) size;
        switch (type) {
        case Opm::EclIO::INTE: o.write(name, f.get<int>(i)); break;
        case Opm::EclIO::REAL: o.write(name, f.get<float>(i)); break;
        case Opm::EclIO::DOUB: o.write(name, f.get<double>(i)); break;
        case Opm::EclIO::LOGI: o.write(name, f.get<bool>(i)); break;
        case Opm::EclIO::CHAR: o.write(name, f.get<std::string>(i)); break;
        default: break;
        }
    }
}

int main()
{
    namespace fs = std::filesystem;
    const fs::path dir = fs::temp_directory_path() / "verif_replay_strtof";
    fs::create_directories(dir);
    to_formatted("SPE1CASE1.SMSPEC", (dir / "F.FSMSPEC").string());
    to_formatted("SPE1CASE1.UNSMRY", (dir / "F.FUNSMRY").string());

    Opm::EclIO::ESmry full((dir / "F.FSMSPEC").string());
    full.loadData();
    int bad = 0;
    for (int round = 0; round < 20 && !bad; ++round) {
        Opm::EclIO::ESmry part((dir / "F.FSMSPEC").string());
        const std::vector<std::string> want = { "FOPR", "WBHP:PROD", "FGOR" };
        // some unrelated heap traffic so that what follows the 17-byte buffer varies
        std::vector<std::string> noise;
        for (int k = 0; k < round * 7; ++k) noise.push_back(std::string(17 + k % 5, '9'));
        part.loadData(want);
        for (const auto& key : want) {
            const auto& a = full.get(key);
            const auto& b = part.get(key);
            for (std::size_t i = 0; i < a.size(); ++i)
                if (!(a[i] == b[i]) && !(std::isnan(a[i]) && std::isnan(b[i]))) {
                    std::cout << key << "[" << i << "]: full load " << a[i] << ", per-vector load " << b[i] << '\n';
                    ++bad;
                    break;
                }
        }
    }
    std::cout << (bad ? "FAIL: per-vector load of the formatted file differs from the full load\n"
                      : "values agree in this run (run under valgrind: an over-read, if present, shows as an invalid read in strtof)\n");
    return bad ? 1 : 0;
}
