// Replay for C02.fpunit: a cell property has its unit in two places - the keyword definition (explicit array) and the
// FieldProps keyword table (scalar of EQUALS/ADD/...).  Where they disagree the same number entered as an array and through
// EQUALS gives different SI values (HEATCR/HEATCRT in FIELD decks), or the scalar form is rejected (YMODULE: the table names
// `Giga*Pascal`, which no unit system registers).  exit 1 = reproduces.
#include <opm/input/eclipse/Deck/Deck.hpp>
#include <opm/input/eclipse/EclipseState/EclipseState.hpp>
#include <opm/input/eclipse/EclipseState/Grid/FieldPropsManager.hpp>
#include <opm/input/eclipse/Parser/Parser.hpp>
#include <cmath>
#include <iostream>
#include <string>
static std::string deck(const std::string& sys, const std::string& kw, bool scalar, const std::string& extra) {
    return "RUNSPEC\n" + sys + "\nDIMENS\n 2 1 1 /\n" + extra + "GRID\nDX\n 2*100 /\nDY\n 2*100 /\nDZ\n 2*10 /\nTOPS\n 2*2000 /\nPORO\n 2*0.3 /\nPERMX\n 2*100 /\nPERMY\n 2*100 /\nPERMZ\n 2*10 /\n"
        + (scalar ? "EQUALS\n " + kw + " 35 /\n/\n" : kw + "\n 2*35 /\n") + "END\n";
}
static double value(const std::string& sys, const std::string& kw, bool scalar, const std::string& extra) {
    auto d = Opm::Parser{}.parseString(deck(sys, kw, scalar, extra));
    Opm::EclipseState es(d);
    return es.fieldProps().get_double(kw).front();
}
int main() {
    int bad = 0;
    struct Case { const char* sys; const char* kw; const char* extra; };
    for (const Case& c : {Case{"FIELD", "HEATCR", "THERMAL\n"}, Case{"FIELD", "HEATCRT", "THERMAL\n"}, Case{"METRIC", "HEATCR", "THERMAL\n"},
                          Case{"METRIC", "YMODULE", "MECH\n"}, Case{"METRIC", "THELCOEF", "MECH\n"}}) {
        std::cout << c.sys << " " << c.kw << ": ";
        try {
            const double a = value(c.sys, c.kw, false, c.extra);
            std::cout << "array 35 -> SI " << a << "; " << std::flush;
            const double s = value(c.sys, c.kw, true, c.extra);
            std::cout << "EQUALS 35 -> SI " << s;
            if (std::fabs(a - s) > 1e-9 * std::fabs(a)) { std::cout << "   DIFFERENT (ratio " << s / a << ")"; ++bad; }
            std::cout << "\n";
        } catch (const std::exception& e) {
            std::cout << "THROW " << e.what() << "\n";
            ++bad;
        }
    }
    return bad ? 1 : 0;
}
