// Concrete replay for the C05.enum finding: Group::ProductionCMode2Int / InjectionCMode2Int fold FLD (and SALE) onto
// the code of NONE, so a group declared with GCONPROD ... 'FLD' comes back from the restart arrays with control mode NONE.
// exit 1 = the group rebuilt from IGRP/SGRP/XGRP has a different production control mode.
#include <opm/input/eclipse/Deck/Deck.hpp>
#include <opm/input/eclipse/EclipseState/EclipseState.hpp>
#include <opm/input/eclipse/Parser/Parser.hpp>
#include <opm/input/eclipse/Python/Python.hpp>
#include <opm/input/eclipse/Schedule/Group/Group.hpp>
#include <opm/input/eclipse/Schedule/Schedule.hpp>
#include <opm/input/eclipse/Schedule/SummaryState.hpp>
#include <opm/io/eclipse/rst/group.hpp>
#include <opm/io/eclipse/rst/header.hpp>
#include <opm/output/eclipse/AggregateGroupData.hpp>
#include <opm/output/eclipse/WriteRestartHelpers.hpp>
#include <opm/common/utility/TimeService.hpp>
#include <iostream>
#include <string>
#include <vector>

static const char* DECK = R"(RUNSPEC
DIMENS
 3 3 3 /
OIL
WATER
GAS
WELLDIMS
 4 10 4 4 /
START
 1 JAN 2020 /
GRID
DX
 27*100 /
DY
 27*100 /
DZ
 27*10 /
TOPS
 9*2000 /
PORO
 27*0.3 /
PERMX
 27*100 /
PERMY
 27*100 /
PERMZ
 27*10 /
SCHEDULE
GRUPTREE
 'PLAT' 'FIELD' /
 'G1' 'PLAT' /
/
WELSPECS
 'P1' 'G1' 1 1 2005 OIL /
/
COMPDAT
 'P1' 1 1 1 2 OPEN 1* 1* 0.2 /
/
GCONPROD
 'PLAT' ORAT 1000 /
  'G1' FLD 500 3* RATE YES 1.0 OIL /
/
TSTEP
 10 /
)";

int main()
{
    Opm::Parser parser;
    const auto deck = parser.parseString(DECK);
    Opm::EclipseState es(deck);
    Opm::Schedule sched(deck, es, std::make_shared<Opm::Python>());
    const std::size_t step = 0;
    const auto ih = Opm::RestartIO::Helpers::createInteHead(es, es.getInputGrid(), sched, 0.0, step, step + 1, step);
    const auto lh = Opm::RestartIO::Helpers::createLogiHead(es);
    const auto dh = Opm::RestartIO::Helpers::createDoubHead(es, sched, step, step + 1, 0.0, 10.0 * 86400);
    Opm::SummaryState st(Opm::TimeService::now(), 0.0);
    Opm::RestartIO::Helpers::AggregateGroupData agg(ih);
    agg.captureDeclaredGroupData(sched, es.getUnits(), step, st, ih);

    const Opm::RestartIO::RstHeader header(es.runspec(), es.getUnits(), ih, lh, dh);
    std::vector<std::string> zgrp;
    for (const auto& z : agg.getZGroup()) zgrp.push_back(z.c_str());
    const auto& g = sched.getGroup("G1", step);
    const auto ig = g.insert_index() - 1;
    const Opm::RestartIO::RstGroup rg(es.getUnits(), header,
                                      zgrp.data() + ig * header.nzgrpz,
                                      agg.getIGroup().data() + ig * header.nigrpz,
                                      agg.getSGroup().data() + ig * header.nsgrpz,
                                      agg.getXGroup().data() + ig * header.nxgrpz);
    const Opm::Group back(rg, g.insert_index(), 0.0, es.getUnits());
    const auto a = Opm::Group::ProductionCMode2String(g.productionProperties().cmode);
    const auto b = Opm::Group::ProductionCMode2String(back.productionProperties().cmode);
    std::cout << "group " << rg.name << ": GCONPROD control mode before save " << a << ", rebuilt from the restart arrays " << b << '\n';
    return a == b ? 0 : 1;
}
