// Replay for the C12.role finding: assign_deck addresses the per-cell component arrays (num_value > 1, e.g. ZMF)
// with stride box.size() although the storage has stride <number of active cells>.  With an inactive cell the
// value of an active cell depends on which other cells are inactive (and the write goes out of bounds).
// exit 1 = reproduces.
#include <opm/input/eclipse/Deck/Deck.hpp>
#include <opm/input/eclipse/EclipseState/EclipseState.hpp>
#include <opm/input/eclipse/EclipseState/Grid/FieldPropsManager.hpp>
#include <opm/input/eclipse/EclipseState/Grid/EclipseGrid.hpp>
#include <opm/input/eclipse/Parser/Parser.hpp>
#include <cmath>
#include <iostream>
static const char* DECK = R"(
------------------------------------------------------------------------
RUNSPEC
------------------------------------------------------------------------
TITLE
   SIMPLE CO2 CASE FOR PARSING TEST

METRIC

TABDIMS
8* 2 3/

OIL
GAS
DIMENS
4 1 1
/

COMPS
3 /

------------------------------------------------------------------------
GRID
------------------------------------------------------------------------
DX
4*10
/
DY
4*1
/
DZ
4*1
/

TOPS
4*0
/


PERMX
4*100
/

PERMY
4*100
/

PERMZ
4*100
/

PORO
1. 2*0.1  1.
/
ACTNUM
1 1 0 1 /


------------------------------------------------------------------------
PROPS
------------------------------------------------------------------------

CNAMES
DECANE
CO2
METHANE
/

ROCK
68 0 /

EOS
PR /
SRK /

BIC
0
1 2 /
1
2 3 /

ACF
0.4 0.2 0.01 /
0.5 0.3 0.03 /

PCRIT
20. 70. 40. /
21. 71. 41. /

TCRIT
600. 300. 190. /
601. 301. 191. /

MW
142.  44.  16. /
142.1 44.1 16.1 /

VCRIT
0.6  0.1  0.1 /
0.61 0.11 0.11 /


STCOND
15.0 /

SGOF
-- Sg    Krg    Kro    Pcgo
   0.0   0.0    1.0    0.0
   0.1   0.1    0.9    0.0
   0.2   0.2    0.8    0.0
   0.3   0.3    0.7    0.0
   0.4   0.4    0.6    0.0
   0.5   0.5    0.5    0.0
   0.6   0.6    0.4    0.0
   0.7   0.7    0.3    0.0
   0.8   0.8    0.2    0.0
   0.9   0.9    0.1    0.0
   1.0   1.0    0.0    0.0
/


------------------------------------------------------------------------
SOLUTION
------------------------------------------------------------------------

PRESSURE
1*150 2*75. 1*37.5
/

SGAS
4*1.
/

TEMPI
4*150
/

ZMF
0.99 0.51 0.52 0.53
0.009 0.31 0.32 0.33
0.001 0.21 0.22 0.23
/

END
)";
int main() {
    auto deck = Opm::Parser{}.parseString(DECK);
    Opm::EclipseState es(deck);
    const auto& zmf = es.fieldProps().get_double("ZMF");
    const std::size_t nact = es.getInputGrid().getNumActive();
    // component-major layout over the ACTIVE cells 0,1,3
    const double want[] = {0.99, 0.51, 0.53, 0.009, 0.31, 0.33, 0.001, 0.21, 0.23};
    int bad = 0;
    std::cout << "active cells " << nact << ", ZMF size " << zmf.size() << "\n";
    for (std::size_t k = 0; k < zmf.size() && k < 9; ++k) {
        bool ok = std::fabs(zmf[k] - want[k]) < 1e-12;
        std::cout << (ok ? "ok    " : "WRONG ") << "ZMF[" << k << "] = " << zmf[k] << " expected " << want[k] << "\n";
        if (!ok) ++bad;
    }
    return bad ? 1 : 0;
}
