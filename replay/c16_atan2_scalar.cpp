#include <opm/material/densead/Evaluation.hpp>
#include <opm/material/densead/Math.hpp>
#include <cstdio>
#include <cmath>
int main() {
    using E = Opm::DenseAd::Evaluation<double, 2>;
    E y = E::createVariable(3.0, 1);
    E r = Opm::DenseAd::atan2(2.0, y);
    double h = 1e-6;
    double fd = (std::atan2(2.0, 3.0 + h) - std::atan2(2.0, 3.0 - h)) / (2*h);
    std::printf("value %g (std %g)  d/dy %g  finite difference %g\n", r.value(), std::atan2(2.0,3.0), r.derivative(1), fd);
    return std::fabs(r.derivative(1) - fd) < 1e-6 ? 0 : 1;
}
