// Concrete replay for the C03.prefix findings: three keywords of the SCHEDULE section are looked up in the
// whole deck while the schedule-wide static data / first state is built, so input of a LATER report step
// changes the state at report step 0.      exit 1 = state 0 differs between the full and the truncated input.
#include <opm/input/eclipse/Deck/Deck.hpp>
#include <opm/input/eclipse/EclipseState/EclipseState.hpp>
#include <opm/input/eclipse/Parser/Parser.hpp>
#include <opm/input/eclipse/Python/Python.hpp>
#include <opm/input/eclipse/Schedule/Schedule.hpp>
#include <opm/input/eclipse/Schedule/ScheduleState.hpp>
#include <opm/input/eclipse/Schedule/VFPProdTable.hpp>
#include <opm/input/eclipse/Schedule/Network/Balance.hpp>
#include <iostream>
#include <string>

static const std::string HEAD = R"(
RUNSPEC
DIMENS
 3 3 3 /
OIL
WATER
GAS
START
 1 JAN 2020 /
GRID
DX
 27*100 /
DY
 27*100 /
DZ
 27*10 /
TOPS
 9*2000 /
PORO
 27*0.3 /
PERMX
 27*100 /
PERMY
 27*100 /
PERMZ
 27*10 /
SCHEDULE
VFPPROD
 1 2000 LIQ WCT GOR THP 1* METRIC BHP /
 1 10 /
 10 /
 0.1 /
 100 /
 0 /
 1 1 1 1 50 60 /
WELSPECS
 'P1' 'G' 1 1 2005 OIL /
/
COMPDAT
 'P1' 1 1 1 2 OPEN 1* 1* 0.2 /
/
TSTEP
 10 /
)";

static Opm::Schedule make(const std::string& tail)
{
    Opm::Parser parser;
    const auto deck = parser.parseString(HEAD + tail);
    Opm::EclipseState es(deck);
    return Opm::Schedule(deck, es, std::make_shared<Opm::Python>());
}

int main()
{
    int bad = 0;
    const auto base = make("TSTEP\n 10 /\n");
    {
        const auto later = make("LIFTOPT\n 12500 5E-3 0.0 YES /\nTSTEP\n 10 /\n");
        const auto a = static_cast<int>(base[0].vfpprod(1).getALQType());
        const auto b = static_cast<int>(later[0].vfpprod(1).getALQType());
        std::cout << "LIFTOPT in report step 1: state 0 VFPPROD 1 ALQ type " << a << " -> " << b << '\n';
        if (a != b) ++bad;
    }
    {
        const auto later = make("GRUPNET\n 'G' 20 /\n/\nTSTEP\n 10 /\n");
        const bool eq = base[0].network_balance() == later[0].network_balance();
        std::cout << "GRUPNET in report step 1: state 0 network_balance "
                  << static_cast<int>(base[0].network_balance().mode()) << " -> "
                  << static_cast<int>(later[0].network_balance().mode()) << (eq ? " (equal)" : " (differs)") << '\n';
        if (!eq) ++bad;
    }
    std::cout << (bad ? "FAIL: state 0 depends on input of report step 1\n" : "OK\n");
    return bad ? 1 : 0;
}
