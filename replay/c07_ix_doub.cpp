// Concrete replay for the C07.fmtbuf finding: EclOutput::make_doub_string_ix formats with "%19.13E" into char[21]; a
// negative double with a three-digit exponent needs 21 characters plus the terminator, so snprintf drops the last
// exponent digit and the IX-flavoured formatted file holds another number.   exit 1 = value read back differs.
#include <opm/io/eclipse/EclFile.hpp>
#include <opm/io/eclipse/EclOutput.hpp>
#include <cmath>
#include <filesystem>
#include <iostream>
#include <vector>

int main()
{
    namespace fs = std::filesystem;
    const auto fname = (fs::temp_directory_path() / "verif_replay_ix.FDATA").string();
    const std::vector<double> values { -1.5e-100, 1.5e-100, -2.25e+105, -3.0e-7 };
    {
        Opm::EclIO::EclOutput out(fname, true);
        out.set_ix();
        out.write("DOUB", values);
    }
    Opm::EclIO::EclFile in(fname);
    in.loadData();
    const auto back = in.get<double>("DOUB");
    int bad = 0;
    for (std::size_t i = 0; i < values.size(); ++i) {
        const bool same = std::abs(back[i] - values[i]) <= 1e-12 * std::abs(values[i]);
        std::cout << "written " << values[i] << "  read back " << back[i] << (same ? "" : "   DIFFERS") << '\n';
        bad += !same;
    }
    return bad ? 1 : 0;
}
