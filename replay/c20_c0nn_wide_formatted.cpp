// Replay for C20.divzero (computed column count): formatted output of a string array whose element width is 78 or more.
// EclOutput::writeFormattedCharArray and sizeOnDiskFormatted compute the number of elements per 80-column line as
// 80 / (width + 3), which is 0 from width 78 on, and then take `% nColumns` / `/ nColumns`: integer division by zero
// (SIGFPE) instead of a file or an exception.  exit 1 = reproduces (the child is killed by a signal or the array does
// not come back).
#include <opm/io/eclipse/EclFile.hpp>
#include <opm/io/eclipse/EclOutput.hpp>
#include <sys/wait.h>
#include <unistd.h>
#include <cstdio>
#include <iostream>
#include <string>
#include <vector>
static int attempt(int width) {
    const std::string fn = "C0NN_WIDE.FDAT";
    std::vector<std::string> data { std::string(width, 'x'), "short", std::string(width - 1, 'y') };
    {
        Opm::EclIO::EclOutput out(fn, true);
        out.write<std::string>("LONGSTR", data);
        out.write<int>("AFTER", std::vector<int>{1, 2, 3});
    }
    Opm::EclIO::EclFile in(fn);
    in.loadData();
    const auto& back = in.get<std::string>("LONGSTR");
    const auto& after = in.get<int>("AFTER");
    std::remove(fn.c_str());
    if (back.size() != data.size()) return 3;
    for (std::size_t i = 0; i < data.size(); ++i)
        if (back[i] != data[i]) return 4;
    return (after == std::vector<int>{1, 2, 3}) ? 0 : 5;
}
int main() {
    int bad = 0;
    for (int width : {40, 77, 78, 90, 132}) {
        const pid_t pid = fork();
        if (pid == 0) {
            int rc = 9;
            try { rc = attempt(width); } catch (const std::exception& e) { std::cout << "  exception: " << e.what() << "\n"; rc = 8; }
            _exit(rc);
        }
        int st = 0;
        waitpid(pid, &st, 0);
        if (WIFSIGNALED(st)) { std::cout << "width " << width << ": killed by signal " << WTERMSIG(st) << "\n"; ++bad; }
        else if (WEXITSTATUS(st) != 0) { std::cout << "width " << width << ": did not round-trip (code " << WEXITSTATUS(st) << ")\n"; ++bad; }
        else std::cout << "width " << width << ": ok\n";
    }
    return bad ? 1 : 0;
}
