// Replay for the C12 finding in FieldProps::distribute_toplayer: PORO/PERM* given for the top layer only are
// distributed to the layers below, but the top-layer values are collected from the *active* cells of the box.
// If the top cell of a column is inactive, the active cells below it get no value.  exit 1 = reproduces.
#include <opm/input/eclipse/Deck/Deck.hpp>
#include <opm/input/eclipse/EclipseState/EclipseState.hpp>
#include <opm/input/eclipse/EclipseState/Grid/FieldPropsManager.hpp>
#include <opm/input/eclipse/Parser/Parser.hpp>
#include <iostream>
#include <string>
static std::string deck(const char* actnum) {
    return std::string(R"(
RUNSPEC
DIMENS
 2 1 2 /
GRID
DX
 4*100 /
DY
 4*100 /
DZ
 4*10 /
TOPS
 2*2000 /
ACTNUM
 )") + actnum + R"( /
BOX
 1 2 1 1 1 1 /
PORO
 0.25 0.35 /
ENDBOX
PERMX
 4*100 /
PERMY
 4*100 /
PERMZ
 4*10 /
END
)";
}
int main() {
    int bad = 0;
    for (const char* act : {"1 1 1 1", "1 0 1 1"}) {
        std::cout << "ACTNUM " << act << ": ";
        try {
            auto d = Opm::Parser{}.parseString(deck(act));
            Opm::EclipseState es(d);
            const auto& poro = es.fieldProps().get_double("PORO");
            for (double v : poro) std::cout << v << " ";
            std::cout << "\n";
            // the active cell (2,1,2) below the (possibly inactive) cell (2,1,1) must get 0.35 in both cases
            if (poro.back() != 0.35) { std::cout << "   WRONG: PORO of the active cell (2,1,2) depends on cell (2,1,1) being active\n"; ++bad; }
        } catch (const std::exception& e) {
            std::cout << "THROW " << e.what() << "\n   WRONG: PORO of the active cell (2,1,2) is left undefined because cell (2,1,1) is inactive\n";
            ++bad;
        }
    }
    return bad ? 1 : 0;
}
