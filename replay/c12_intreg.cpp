// Replay for C12.typed: FieldProps::handle_region_operation has an empty branch for integer arrays
// (`if (supported<int>(target_kw)) continue;`), so ADDREG / EQUALREG / MULTIREG on SATNUM, FIPNUM, PVTNUM, ... are dropped
// without a message, while EQUALS / ADD / MULTIPLY (handle_operation) do apply to integer arrays.  exit 1 = reproduces.
#include <opm/input/eclipse/Deck/Deck.hpp>
#include <opm/input/eclipse/EclipseState/EclipseState.hpp>
#include <opm/input/eclipse/EclipseState/Grid/FieldPropsManager.hpp>
#include <opm/input/eclipse/Parser/Parser.hpp>
#include <iostream>
#include <string>
#include <vector>
int main() {
    const std::string deck = R"(
RUNSPEC
DIMENS
 2 1 2 /
GRID
DX
 4*100 /
DY
 4*100 /
DZ
 4*10 /
TOPS
 2*2000 /
PORO
 4*0.3 /
PERMX
 4*100 /
PERMY
 4*100 /
PERMZ
 4*10 /
MULTNUM
 1 2 1 2 /
REGIONS
SATNUM
 4*1 /
FIPNUM
 4*1 /
EQUALREG
 SATNUM 3 2 M /
/
ADDREG
 FIPNUM 4 2 M /
/
MULTIREG
 FIPNUM 2 1 M /
/
END
)";
    int bad = 0;
    try {
        auto d = Opm::Parser{}.parseString(deck);
        Opm::EclipseState es(d);
        const auto sat = es.fieldProps().get_int("SATNUM");
        const auto fip = es.fieldProps().get_int("FIPNUM");
        const std::vector<int> want_sat {1, 3, 1, 3}, want_fip {2, 5, 2, 5};
        std::cout << "SATNUM:";
        for (int v : sat) std::cout << " " << v;
        std::cout << "   expected 1 3 1 3\nFIPNUM:";
        for (int v : fip) std::cout << " " << v;
        std::cout << "   expected 2 5 2 5\n";
        for (std::size_t i = 0; i < 4; ++i) {
            if (sat[i] != want_sat[i]) ++bad;
            if (fip[i] != want_fip[i]) ++bad;
        }
        if (bad) std::cout << "WRONG: region operations on integer arrays were not applied\n";
    } catch (const std::exception& e) {
        std::cout << "THROW " << e.what() << "\n";
        return 2;
    }
    return bad ? 1 : 0;
}
