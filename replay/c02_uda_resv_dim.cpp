// Replay for C02.udadim: the dimension a UDA-controlled RESV target gets when it is restored from a restart file
// (UnitSystem::uda_dim, used by UDQActive::load_rst) is geometric_volume_rate (FIELD: ft3/day), the dimension the keyword
// gives it in the original run is LiquidSurfaceVolume/Time resp. measure::rate (FIELD: stb/day = rb/day).
// The same UDQ value therefore means a 5.61 times smaller target after a restart of a FIELD run.  exit 1 = reproduces.
#include <opm/input/eclipse/Units/UnitSystem.hpp>
#include <opm/input/eclipse/Units/Dimension.hpp>
#include <opm/input/eclipse/Schedule/UDQ/UDQEnums.hpp>
#include <cmath>
#include <iostream>
int main() {
    int bad = 0;
    for (auto type : {Opm::UnitSystem::UnitType::UNIT_TYPE_METRIC, Opm::UnitSystem::UnitType::UNIT_TYPE_FIELD,
                      Opm::UnitSystem::UnitType::UNIT_TYPE_LAB, Opm::UnitSystem::UnitType::UNIT_TYPE_PVT_M}) {
        const Opm::UnitSystem us(type);
        const double kw = us.parse("LiquidSurfaceVolume/Time").getSIScaling();   // WCONPROD item RESV
        const double def = us.getDimension(Opm::UnitSystem::measure::rate).getSIScaling();   // WellProductionProperties default
        for (auto c : {Opm::UDAControl::WCONPROD_RESV, Opm::UDAControl::WELTARG_RESV, Opm::UDAControl::WCONINJE_RESV, Opm::UDAControl::GCONINJE_RESV_MAX_RATE}) {
            const double rst = us.uda_dim(c).getSIScaling();
            const bool same = std::fabs(rst - kw) <= 1e-12 * kw && std::fabs(def - kw) <= 1e-12 * kw;
            std::cout << us.getName() << " UDAControl " << static_cast<int>(c) << ": keyword " << kw << "  default " << def << "  restart " << rst
                      << (same ? "" : "   DIFFERENT (restart/keyword = " + std::to_string(rst / kw) + ")") << "\n";
            if (!same) ++bad;
        }
    }
    return bad ? 1 : 0;
}
