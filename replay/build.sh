#!/bin/bash
# build a concrete replay against the library built in /repo/_build:  replay/build.sh <name>
set -e
cd "$(dirname "$0")"
mkdir -p /tmp/verif_replay
g++ -std=c++17 -O1 -fopenmp -DHAVE_CONFIG_H=1 -I/repo/_build -I/repo/_build/include -I/repo -isystem /root/miniconda/include \
  "$1.cpp" -o "/tmp/verif_replay/$1" /repo/_build/lib/libopmcommon.a -L/root/miniconda/lib -Wl,-rpath,/root/miniconda/lib \
  -lfmt -lboost_system -lboost_filesystem -lcjson -lpython3.11 2>&1 || \
g++ -std=c++17 -O1 -fopenmp -DHAVE_CONFIG_H=1 -I/repo/_build -I/repo/_build/include -I/repo -isystem /root/miniconda/include \
  "$1.cpp" -o "/tmp/verif_replay/$1" /repo/_build/lib/libopmcommon.a -L/root/miniconda/lib -Wl,-rpath,/root/miniconda/lib -lfmt
echo "/tmp/verif_replay/$1"
