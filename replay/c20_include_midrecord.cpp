// Concrete replay for two parser findings reported by a seeding sub-agent on the unchanged tree (C20):
//  (a) an INCLUDE file that ends in the middle of a record, the record being continued in the including file: the record
//      buffer is a string_view into the include file's text, the continuation line lives in the parent's text, and
//      update_record_buffer builds a view spanning the two allocations (wild read, usually SIGSEGV);
//  (b) a deck that INCLUDEs itself: unbounded recursion of the input stack (never terminates / memory exhaustion).
// Each input is parsed in a child process with a time and address-space limit.
// exit 1 = an input ends in a signal or a timeout instead of a Deck or a std::exception.
#include <opm/input/eclipse/Deck/Deck.hpp>
#include <opm/input/eclipse/Parser/Parser.hpp>
#include <sys/resource.h>
#include <sys/wait.h>
#include <unistd.h>
#include <filesystem>
#include <fstream>
#include <iostream>
#include <string>

static int attempt(const std::string& what, const std::string& file)
{
    const pid_t pid = fork();
    if (pid == 0) {
        struct rlimit cpu{10, 10}, as{4ull << 30, 4ull << 30};
        setrlimit(RLIMIT_CPU, &cpu);
        setrlimit(RLIMIT_AS, &as);
        try {
            Opm::Parser parser;
            const auto d = parser.parseFile(file);
            _exit(0);
        } catch (const std::exception&) {
            _exit(3);
        }
    }
    int status = 0;
    waitpid(pid, &status, 0);
    if (WIFSIGNALED(status)) {
        std::cout << what << ": killed by signal " << WTERMSIG(status) << (WTERMSIG(status) == SIGXCPU || WTERMSIG(status) == SIGKILL ? " (cpu limit: does not terminate)" : "") << '\n';
        return 1;
    }
    std::cout << what << ": " << (WEXITSTATUS(status) == 0 ? "deck built" : "std::exception") << '\n';
    return 0;
}

int main()
{
    namespace fs = std::filesystem;
    const fs::path dir = fs::temp_directory_path() / ("c20_include_" + std::to_string(getpid()));
    fs::create_directories(dir);
    const std::string head = "RUNSPEC\nDIMENS\n 3 3 3 /\nGRID\n";
    // (a) record of PORO started in the include file, continued in the parent
    { std::ofstream(dir / "PORO.INC") << "PORO\n 10*0.25\n"; }
    { std::ofstream(dir / "A.DATA") << head << "INCLUDE\n 'PORO.INC' /\n 17*0.30 /\nPERMX\n 27*100 /\n"; }
    // the same with a large include file (another allocation pattern) and with a string-valued record
    { std::ofstream f(dir / "BIG.INC"); f << "PORO\n"; for (int i = 0; i < 20000; ++i) f << " 0.25 0.25 0.25 0.25 0.25\n"; }
    { std::ofstream(dir / "A2.DATA") << "RUNSPEC\nDIMENS\n 100 100 11 /\nGRID\nINCLUDE\n 'BIG.INC' /\n 10000*0.30 /\nPERMX\n 110000*100 /\n"; }
    { std::ofstream(dir / "WELSPECS.INC") << "WELSPECS\n 'P1' 'G' 1 1 1* \n"; }
    { std::ofstream(dir / "A3.DATA") << head << "SCHEDULE\nINCLUDE\n 'WELSPECS.INC' /\n 'OIL' /\n/\n"; }
    // control: the same record completely inside the include file
    { std::ofstream(dir / "PORO2.INC") << "PORO\n 10*0.25\n 17*0.30 /\n"; }
    { std::ofstream(dir / "B.DATA") << head << "INCLUDE\n 'PORO2.INC' /\nPERMX\n 27*100 /\n"; }
    // (b) a deck that includes itself
    { std::ofstream(dir / "C.DATA") << head << "INCLUDE\n 'C.DATA' /\n"; }
    int bad = 0;
    bad += attempt("(a) include file ends inside a record", (dir / "A.DATA").string());
    bad += attempt("(a) ... large include file             ", (dir / "A2.DATA").string());
    bad += attempt("(a) ... WELSPECS record                ", (dir / "A3.DATA").string());
    bad += attempt("    control: record complete in include", (dir / "B.DATA").string());
    bad += attempt("(b) deck includes itself             ", (dir / "C.DATA").string());
    fs::remove_all(dir);
    std::cout << (bad ? "FAIL: malformed input crashes or hangs the process\n" : "OK\n");
    return bad ? 1 : 0;
}
