// Replay for the C20.throw finding: Parser::parse(deck-string, context, errors) throws a *pointer* to
// std::logic_error when the ParseContext carries the PARSE_MISSING_SECTIONS key.  exit 1 = reproduces.
#include <opm/input/eclipse/Parser/Parser.hpp>
#include <opm/input/eclipse/Parser/ParseContext.hpp>
#include <opm/input/eclipse/Parser/ErrorGuard.hpp>
#include <opm/input/eclipse/Parser/InputErrorAction.hpp>
#include <opm/input/eclipse/EclipseState/EclipseState.hpp>
#include <iostream>
int main() {
    Opm::ParseContext ctx;
    ctx.addKey(Opm::ParseContext::PARSE_MISSING_SECTIONS, Opm::InputErrorAction::IGNORE);
    Opm::ErrorGuard errors;
    try {
        Opm::Parser::parseData("RUNSPEC\nDIMENS\n 1 1 1 /\n", ctx, errors);
        std::cout << "returned\n";
        return 0;
    } catch (const std::exception& e) {
        std::cout << "ok: std::exception: " << e.what() << "\n";
        return 0;
    } catch (...) {
        std::cout << "WRONG: something that is not a std::exception was thrown\n";
        return 1;
    }
}
