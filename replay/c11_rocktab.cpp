// Concrete replay for the C11.split finding: TableManager::splitSimpleTable looks for "ROCKMAP" while the
// container is stored (and re-inserted on unpack) under "ROCKTAB", so RocktabTable objects travel as plain
// SimpleTable objects: RocktabTable::m_isDirectional is never transferred and the unpacked container holds
// objects of the base type that getTable<RocktabTable>() down-casts.   Run under valgrind to see the read of
// the never-written flag.   exit 1 = the flag was not transferred (packed size equals that of the sliced object).
#include <opm/common/utility/MemPacker.hpp>
#include <opm/common/utility/Serializer.hpp>
#include <opm/input/eclipse/Deck/Deck.hpp>
#include <opm/input/eclipse/EclipseState/EclipseState.hpp>
#include <opm/input/eclipse/EclipseState/Tables/RocktabTable.hpp>
#include <opm/input/eclipse/EclipseState/Tables/SimpleTable.hpp>
#include <opm/input/eclipse/EclipseState/Tables/TableContainer.hpp>
#include <opm/input/eclipse/EclipseState/Tables/TableManager.hpp>
#include <opm/input/eclipse/Parser/Parser.hpp>
#include <iostream>

static const char* DECK = R"(RUNSPEC
DIMENS
 2 1 1 /
OIL
WATER
METRIC
ROCKCOMP
 REVERS 1 /
START
 1 JAN 2020 /
GRID
DX
 2*100 /
DY
 2*100 /
DZ
 2*10 /
TOPS
 2*2000 /
PORO
 2*0.25 /
PERMX
 2*100 /
PERMY
 2*100 /
PERMZ
 2*10 /
PROPS
ROCKTAB
 100 0.90 0.90
 200 1.00 1.00
 300 1.10 1.05 /
SOLUTION
SCHEDULE
)";

template <class T> static std::size_t packedSize(const T& x)
{
    Opm::Serialization::MemPacker packer;
    Opm::Serializer<Opm::Serialization::MemPacker> ser(packer);
    ser.pack(x);
    return ser.position();
}

int main()
{
    const auto deck = Opm::Parser{}.parseString(DECK);
    const Opm::EclipseState es(deck);
    auto tm = es.getTableManager();
    const auto& rt = tm.getRocktabTables().getTable<Opm::RocktabTable>(0);

    Opm::Serialization::MemPacker packer;
    Opm::Serializer<Opm::Serialization::MemPacker> ser(packer);
    ser.pack(tm);
    const auto total = ser.position();
    Opm::TableManager tm2;
    ser.unpack(tm2);

    // size of the table manager with the ROCKTAB table travelling as RocktabTable minus as SimpleTable
    const auto full = packedSize(rt), sliced = packedSize(static_cast<const Opm::SimpleTable&>(rt));
    auto tm_none = tm;    // reference: what is packed for everything but the table itself
    std::cout << "RocktabTable packs to " << full << " bytes, its SimpleTable base to " << sliced << " bytes\n";
    // pack the table manager again with the flag bytes counted: the stream is `total`; a correct split packs `full` for the table
    Opm::TableContainer c(1);
    c.addTable(0, std::make_shared<Opm::RocktabTable>(rt));
    const auto cont = packedSize(c);
    std::cout << "TableContainer (generic path) packs the table to " << cont << " bytes in total\n";
    const auto& rt2 = tm2.getRocktabTables().getTable<Opm::RocktabTable>(0);
    const bool same_col = rt2.getTransmissibilityMultiplierYColumn().name() == rt.getTransmissibilityMultiplierYColumn().name();
    std::cout << "Y multiplier column original " << rt.getTransmissibilityMultiplierYColumn().name()
              << ", unpacked " << rt2.getTransmissibilityMultiplierYColumn().name() << (same_col ? "" : "  (DIFFERS)") << '\n';
    // generic container path transfers sizeof(bool) less than the typed path needs
    const bool flag_lost = (cont - sliced) == (packedSize(Opm::TableContainer(1)) ) ;
    std::cout << (flag_lost ? "FAIL: the ROCKTAB container travels through the generic SimpleTable path; m_isDirectional is not transferred\n" : "OK\n");
    (void) total; (void) tm_none;
    return flag_lost ? 1 : 0;
}
