// Concrete replay for the C17 findings: (a) `^` must bind tighter than `*` `/`;
// (b) a name the tokenizer accepts ("DIV") must be evaluable.  exit 1 = a finding reproduces.
#include <opm/common/utility/TimeService.hpp>
#include <opm/common/OpmLog/KeywordLocation.hpp>
#include <opm/input/eclipse/Schedule/SummaryState.hpp>
#include <opm/input/eclipse/Schedule/UDQ/UDQContext.hpp>
#include <opm/input/eclipse/Schedule/UDQ/UDQDefine.hpp>
#include <opm/input/eclipse/Schedule/UDQ/UDQFunctionTable.hpp>
#include <opm/input/eclipse/Schedule/UDQ/UDQParams.hpp>
#include <opm/input/eclipse/Schedule/UDQ/UDQSet.hpp>
#include <opm/input/eclipse/Schedule/UDQ/UDQState.hpp>
#include <opm/input/eclipse/Schedule/Well/WellMatcher.hpp>
#include <opm/input/eclipse/Schedule/Well/NameOrder.hpp>
#include <opm/common/utility/OpmInputError.hpp>
#include <opm/common/utility/TimeService.hpp>
#include <opm/io/eclipse/rst/udq.hpp>
#include <opm/input/eclipse/EclipseState/EclipseState.hpp>
#include <opm/input/eclipse/EclipseState/Grid/FieldPropsManager.hpp>
#include <opm/input/eclipse/EclipseState/Runspec.hpp>
#include <opm/input/eclipse/Python/Python.hpp>
#include <opm/input/eclipse/Schedule/MSW/SegmentMatcher.hpp>
#include <opm/input/eclipse/Schedule/MSW/WellSegments.hpp>
#include <opm/input/eclipse/Schedule/Schedule.hpp>
#include <opm/input/eclipse/Schedule/ScheduleState.hpp>
#include <opm/input/eclipse/Schedule/SummaryState.hpp>
#include <opm/input/eclipse/Schedule/UDQ/UDQActive.hpp>
#include <opm/input/eclipse/Schedule/UDQ/UDQAssign.hpp>
#include <opm/input/eclipse/Schedule/UDQ/UDQConfig.hpp>
#include <opm/input/eclipse/Schedule/UDQ/UDQContext.hpp>
#include <opm/input/eclipse/Schedule/UDQ/UDQEnums.hpp>
#include <opm/input/eclipse/Schedule/UDQ/UDQFunction.hpp>
#include <opm/input/eclipse/Schedule/UDQ/UDQFunctionTable.hpp>
#include <opm/input/eclipse/Schedule/UDQ/UDQSet.hpp>
#include <opm/input/eclipse/Schedule/UDQ/UDQState.hpp>
#include <opm/input/eclipse/Schedule/Well/NameOrder.hpp>
#include <opm/input/eclipse/Schedule/Well/Well.hpp>
#include <opm/input/eclipse/Schedule/Well/WellMatcher.hpp>
#include <opm/input/eclipse/Utility/Typetools.hpp>
#include <opm/input/eclipse/Deck/Deck.hpp>
#include <opm/input/eclipse/Deck/UDAValue.hpp>
#include <opm/input/eclipse/Parser/ErrorGuard.hpp>
#include <opm/input/eclipse/Parser/InputErrorAction.hpp>
#include <opm/input/eclipse/Parser/ParseContext.hpp>
#include <opm/input/eclipse/Parser/Parser.hpp>
#include <algorithm>
#include <cmath>
#include <cstddef>
#include <memory>
#include <limits>
#include <stdexcept>
#include <string>
#include <utility>

#include <cmath>
#include <iostream>
using namespace Opm;

int main() {
    KeywordLocation location;
    UDQParams udqp;
    UDQFunctionTable udqft(udqp);
    SummaryState st(TimeService::now(), udqp.undefinedValue());
    UDQState udq_state(udqp.undefinedValue());
    UDQContext context(udqft, {}, {}, UDQContext::MatcherFactories{}, st, udq_state);
    int bad = 0;
    auto check = [&](const char* what, std::vector<std::string> toks, double want) {
        try {
            UDQDefine def(udqp, "FU1", 0, location, toks);
            auto res = def.eval(context);
            double got = res[0].get();
            bool ok = std::fabs(got - want) < 1e-9;
            std::cout << (ok ? "ok    " : "WRONG ") << what << " = " << got << " (documented: " << want << ")\n";
            if (!ok) ++bad;
        } catch (const std::exception& e) {
            std::cout << "THROW " << what << ": " << e.what() << "\n";
            ++bad;
        }
    };
    check("2 ^ 3 * 4", {"2", "^", "3", "*", "4"}, 32.0);          // (2^3)*4
    check("2 * 3 ^ 2 * 5", {"2", "*", "3", "^", "2", "*", "5"}, 90.0);   // 2*(3^2)*5
    check("8 / 2 ^ 2 / 2", {"8", "/", "2", "^", "2", "/", "2"}, 1.0);    // (8/(2^2))/2
    check("2 ^ 3 + 1", {"2", "^", "3", "+", "1"}, 9.0);
    check("12 DIV 4", {"12", "DIV", "4"}, 3.0);
    return bad ? 1 : 0;
}
