// Replay for C20.popguard: ERsm::load_block takes lines off a std::deque (front / pop_front, pop_return, pop_separator)
// without asking whether any are left.  An RSM file that ends inside a block header - here after the first line - makes it
// pop from an empty deque: undefined behaviour, in practice a crash.  exit by signal = reproduces; an exception is fine.
#include <opm/io/eclipse/ERsm.hpp>
#include <cstdio>
#include <exception>
#include <fstream>
#include <iostream>
int main() {
    const char* fn = "/tmp/verif_replay/TRUNC.RSM";
    for (const char* text : {"1\n", "1\n ----\n SUMMARY OF RUN\n", "1\n ---\n SUMMARY\n ---\n DATE  FOPR\n"}) {
        { std::ofstream os(fn); os << text; }
        try {
            Opm::EclIO::ERsm rsm(fn);
            std::cout << "loaded\n";
        } catch (const std::exception& e) {
            std::cout << "exception: " << e.what() << "\n";
        }
    }
    std::remove(fn);
    return 0;
}
