// Concrete replay for the C20.divzero finding: RPTRST with BASIC=3 and FREQ=0 makes ScheduleState::rst_file compute
// sim_step() % 0 while the Schedule is built (SIGFPE).  Each input is parsed in a child process.
// exit 1 = at least one input ends in a signal instead of a Deck/Schedule or a std::exception.
#include <opm/input/eclipse/Deck/Deck.hpp>
#include <opm/input/eclipse/EclipseState/EclipseState.hpp>
#include <opm/input/eclipse/Parser/Parser.hpp>
#include <opm/input/eclipse/Python/Python.hpp>
#include <opm/input/eclipse/Schedule/Schedule.hpp>
#include <sys/wait.h>
#include <unistd.h>
#include <iostream>
#include <string>

static const char* HEAD = R"(RUNSPEC
DIMENS
 3 3 3 /
OIL
WATER
START
 1 JAN 2020 /
GRID
DX
 27*100 /
DY
 27*100 /
DZ
 27*10 /
TOPS
 9*2000 /
PORO
 27*0.3 /
PERMX
 27*100 /
PERMY
 27*100 /
PERMZ
 27*10 /
SCHEDULE
)";

static int attempt(const std::string& what, const std::string& schedule)
{
    const pid_t pid = fork();
    if (pid == 0) {
        try {
            Opm::Parser parser;
            const auto d = parser.parseString(std::string(HEAD) + schedule);
            Opm::EclipseState es(d);
            Opm::Schedule sched(d, es, std::make_shared<Opm::Python>());
            _exit(0);
        } catch (const std::exception&) {
            _exit(3);
        }
    }
    int status = 0;
    waitpid(pid, &status, 0);
    if (WIFSIGNALED(status)) {
        std::cout << what << ": killed by signal " << WTERMSIG(status) << '\n';
        return 1;
    }
    std::cout << what << ": " << (WEXITSTATUS(status) == 0 ? "schedule built" : "std::exception") << '\n';
    return 0;
}

int main()
{
    int bad = 0;
    bad += attempt("RPTRST BASIC=3 FREQ=0 + one report step", "RPTRST\n 'BASIC=3' 'FREQ=0' /\nTSTEP\n 10 /\n");
    bad += attempt("RPTRST BASIC=3 FREQ=-2 + one report step", "RPTRST\n 'BASIC=3' 'FREQ=-2' /\nTSTEP\n 10 /\n");
    bad += attempt("RPTRST BASIC=3 FREQ=2 (control)          ", "RPTRST\n 'BASIC=3' 'FREQ=2' /\nTSTEP\n 10 10 /\n");
    std::cout << (bad ? "FAIL: malformed input crashes the process\n" : "OK\n");
    return bad ? 1 : 0;
}
