// Replay for C20.sizebound: ERsm's line loader evaluates line.back() for every line std::getline delivers, also for an
// empty one (RSM files contain blank lines).  back() on an empty std::string is undefined; a standard library built with
// assertions (-D_GLIBCXX_ASSERTIONS, the default hardening of several distributions) aborts there.  This replay compiles
// the library's own ERsm.cpp with that flag: build with  g++ -D_GLIBCXX_ASSERTIONS ... c20_ersm_blankline.cpp
// /repo/opm/io/eclipse/ERsm.cpp <library>.   exit by SIGABRT = reproduces; an exception or a normal return is fine.
#include <opm/io/eclipse/ERsm.hpp>
#include <cstdio>
#include <exception>
#include <fstream>
#include <iostream>
int main() {
    const char* fn = "/tmp/verif_replay/BLANK.RSM";
    { std::ofstream os(fn); os << "1\n\n -------------------------------------------\n\n"; }
    try {
        Opm::EclIO::ERsm rsm(fn);
        std::cout << "loaded\n";
    } catch (const std::exception& e) {
        std::cout << "exception: " << e.what() << "\n";
    }
    std::remove(fn);
    return 0;
}
