// Concrete replay for the three C20.cursor findings: malformed UDQ / ACTIONX input makes a token cursor step past the
// end of its token vector and the next fetch reads out of bounds (segmentation fault).  Each input is parsed in a child
// process.   exit 1 = at least one input ends in a signal instead of a Deck/Schedule or a std::exception.
#include <opm/input/eclipse/Deck/Deck.hpp>
#include <opm/input/eclipse/EclipseState/EclipseState.hpp>
#include <opm/input/eclipse/Parser/Parser.hpp>
#include <opm/input/eclipse/Python/Python.hpp>
#include <opm/input/eclipse/Schedule/Schedule.hpp>
#include <sys/wait.h>
#include <unistd.h>
#include <iostream>
#include <string>

static const char* HEAD = R"(RUNSPEC
DIMENS
 3 3 3 /
OIL
WATER
START
 1 JAN 2020 /
GRID
DX
 27*100 /
DY
 27*100 /
DZ
 27*10 /
TOPS
 9*2000 /
PORO
 27*0.3 /
PERMX
 27*100 /
PERMY
 27*100 /
PERMZ
 27*10 /
SCHEDULE
)";

static int attempt(const std::string& what, const std::string& schedule)
{
    const pid_t pid = fork();
    if (pid == 0) {
        try {
            Opm::Parser parser;
            const auto d = parser.parseString(std::string(HEAD) + schedule);
            Opm::EclipseState es(d);
            Opm::Schedule sched(d, es, std::make_shared<Opm::Python>());
            _exit(0);
        } catch (const std::exception&) {
            _exit(3);
        }
    }
    int status = 0;
    waitpid(pid, &status, 0);
    if (WIFSIGNALED(status)) {
        std::cout << what << ": killed by signal " << WTERMSIG(status) << '\n';
        return 1;
    }
    std::cout << what << ": " << (WEXITSTATUS(status) == 0 ? "schedule built" : "std::exception") << '\n';
    return 0;
}

int main()
{
    int bad = 0;
    bad += attempt("UDQ DEFINE WUX -           (UDQParser::parse_factor)", "UDQ\n DEFINE WUX - /\n/\nTSTEP\n 10 /\n");
    bad += attempt("UDQ DEFINE WUX TU_X[WOPR   (make_udq_tokens)        ", "UDQ\n DEFINE WUX TU_X[WOPR /\n/\nTSTEP\n 10 /\n");
    bad += attempt("ACTIONX condition '('      (Action::Condition)      ", "ACTIONX\n 'A' 1 /\n ( /\n/\nENDACTIO\nTSTEP\n 10 /\n");
    std::cout << (bad ? "FAIL: malformed input crashes the process\n" : "OK\n");
    return bad ? 1 : 0;
}
