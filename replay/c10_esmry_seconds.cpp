// Replay for C10.startvec: both ESMRY writers store START as (day, month, year, hour, minute, SECOND, millisecond) but ExtESmry make_date reads entry 5 as microseconds (the SMSPEC STARTDAT convention) and divides by 1e6: the seconds of a start time are lost.  Derived from seeded/C10-i/demo.cpp with the start time 10:30:45.  exit 1 = reproduces.
// Demonstration for property C10 (summary round trip).
//
// A small case whose START keyword carries a time of day (10:30:45, legal
// ECLIPSE input) is written with the library's summary writer
// (Opm::out::Summary, unformatted + unified, ESMRY output requested).  The
// result is read back three ways
//
//    1. legacy reader            ESmry    (CASE.SMSPEC / CASE.UNSMRY)
//    2. ESMRY written directly   ExtESmry (file produced by the writer)
//    3. SMSPEC -> ESMRY          ESmry::make_esmry_file() + ExtESmry
//
// and the start date, the time axis (TIME and dates()), the units, the
// report step positions and all series are compared.
//
// exit 0: everything identical.   exit 1: something differs (printed).

#include "config.h"

#include <opm/output/data/Groups.hpp>
#include <opm/output/data/Wells.hpp>
#include <opm/output/eclipse/Inplace.hpp>
#include <opm/output/eclipse/Summary.hpp>

#include <opm/input/eclipse/EclipseState/EclipseState.hpp>
#include <opm/input/eclipse/EclipseState/Grid/EclipseGrid.hpp>
#include <opm/input/eclipse/EclipseState/SummaryConfig/SummaryConfig.hpp>
#include <opm/input/eclipse/Python/Python.hpp>
#include <opm/input/eclipse/Schedule/Schedule.hpp>
#include <opm/input/eclipse/Schedule/SummaryState.hpp>
#include <opm/input/eclipse/Deck/Deck.hpp>
#include <opm/input/eclipse/Parser/Parser.hpp>

#include <opm/io/eclipse/ESmry.hpp>
#include <opm/io/eclipse/ExtESmry.hpp>

#include <opm/common/utility/TimeService.hpp>

#include <unistd.h>

#include <chrono>
#include <cmath>
#include <cstdio>
#include <ctime>
#include <filesystem>
#include <fstream>
#include <iostream>
#include <memory>
#include <string>
#include <vector>

namespace fs = std::filesystem;

namespace {

const char* deck_string = R"(RUNSPEC
TITLE
 C10 demo
DIMENS
 3 3 3 /
OIL
WATER
GAS
METRIC
START
 14 'MAR' 2021 '10:30:45' /
UNIFOUT
GRID
DX
 27*100 /
DY
 27*100 /
DZ
 27*10 /
TOPS
 9*2000 /
PORO
 27*0.25 /
PERMX
 27*100 /
PERMY
 27*100 /
PERMZ
 27*10 /
PROPS
SOLUTION
SUMMARY
FPR
FOPR
FOPT
BPR
 1 1 1 /
 2 2 2 /
 3 3 3 /
/
SCHEDULE
TSTEP
 1 2 3 4 /
END
)";

std::string fmt_time(const Opm::time_point tp)
{
    const std::time_t t = std::chrono::system_clock::to_time_t(tp);
    char buf[64];
    std::strftime(buf, sizeof buf, "%Y-%m-%d %H:%M:%S", std::gmtime(&t));
    return buf;
}

int nerr = 0;

void fail(const std::string& msg)
{
    ++nerr;
    std::cout << "DIFFERENCE: " << msg << '\n';
}

bool same(const float a, const float b)
{
    return (a == b) || (std::isnan(a) && std::isnan(b));
}

template <class A, class B>
void compare(const std::string& what, const A& ref, const B& other)
{
    if (ref.size() != other.size()) {
        fail(what + ": size " + std::to_string(ref.size()) + " vs " + std::to_string(other.size()));
        return;
    }
    for (std::size_t i = 0; i < ref.size(); ++i) {
        if (!(ref[i] == other[i])) {
            fail(what + ": element " + std::to_string(i) + " differs");
            return;
        }
    }
}

void compare_series(const std::string& what,
                    const std::vector<float>& ref,
                    const std::vector<float>& other)
{
    if (ref.size() != other.size()) {
        fail(what + ": size " + std::to_string(ref.size()) + " vs " + std::to_string(other.size()));
        return;
    }
    for (std::size_t i = 0; i < ref.size(); ++i) {
        if (!same(ref[i], other[i])) {
            fail(what + ": ministep " + std::to_string(i) + ": " +
                 std::to_string(ref[i]) + " vs " + std::to_string(other[i]));
            return;
        }
    }
}

void check_esmry(const std::string& label,
                 const Opm::EclIO::ESmry& legacy,
                 Opm::EclIO::ExtESmry& ext,
                 const std::vector<std::pair<std::string, std::string>>& keys) // legacy key, esmry key
{
    std::cout << "  " << label << ": start date " << fmt_time(ext.startdate())
              << "  (START array has " << ext.start_v().size() << " entries)\n";

    if (legacy.startdate() != ext.startdate())
        fail(label + ": start date " + fmt_time(ext.startdate()) +
             ", legacy reader has " + fmt_time(legacy.startdate()));

    if (legacy.numberOfTimeSteps() != ext.numberOfTimeSteps())
        fail(label + ": number of ministeps " + std::to_string(ext.numberOfTimeSteps())
             + " vs " + std::to_string(legacy.numberOfTimeSteps()));

    for (const auto& [lkey, ekey] : keys) {
        if (!ext.hasKey(ekey)) { fail(label + ": vector " + ekey + " missing"); continue; }
        compare_series(label + ": series " + ekey, legacy.get(lkey), ext.get(ekey));
        compare_series(label + ": report step values " + ekey,
                       legacy.get_at_rstep(lkey), ext.get_at_rstep(ekey));
        if ((lkey != "YEARS") && (legacy.get_unit(lkey) != ext.get_unit(ekey)))
            fail(label + ": unit of " + ekey);
    }

    // time axis as calendar dates
    const auto d_legacy = legacy.dates();
    const auto d_ext    = ext.dates();
    if (d_legacy.size() != d_ext.size()) {
        fail(label + ": dates() size");
    }
    else {
        for (std::size_t i = 0; i < d_legacy.size(); ++i) {
            if (d_legacy[i] != d_ext[i]) {
                fail(label + ": dates()[" + std::to_string(i) + "] = " + fmt_time(d_ext[i]) +
                     ", legacy reader has " + fmt_time(d_legacy[i]));
                break;
            }
        }
    }
}

} // namespace

int main(int argc, char** argv)
{
    // './demo midnight' runs the same case with START at 00:00:00 (control run)
    const bool midnight = (argc > 1) && (std::string(argv[1]) == "midnight");

    const fs::path work = fs::temp_directory_path() / ("c10i-demo-" + std::to_string(::getpid()));
    fs::remove_all(work);
    fs::create_directories(work);
    fs::current_path(work);

    {
        std::ofstream os("CASE.DATA");
        std::string txt = deck_string;
        if (midnight) {
            const auto p = txt.find("10:30:45");
            txt.replace(p, 8, "00:00:00");
        }
        os << txt;
    }

    try {
        const auto deck   = Opm::Parser{}.parseFile("CASE.DATA");
        Opm::EclipseState es { deck };
        const auto& grid  = es.getInputGrid();
        Opm::Schedule sched { deck, es, std::make_shared<Opm::Python>() };
        Opm::SummaryConfig config { deck, sched, es.fieldProps(), es.aquifer() };

        const double day = 86400.0;

        // ---- write -------------------------------------------------------
        {
            Opm::SummaryState st(Opm::TimeService::from_time_t(sched.getStartTime()),
                                 es.runspec().udqParams().undefinedValue());

            Opm::out::Summary writer(config, es, grid, sched, "", /* writeEsmry = */ true);

            const Opm::data::Wells wells{};
            const Opm::data::WellBlockAveragePressures wbp{};
            const Opm::data::GroupAndNetworkValues grp{};

            // report step, elapsed days, is substep
            struct Step { int rstep; double t; bool sub; };
            const std::vector<Step> steps {
                {1, 0.25, true}, {1, 1.0, false},
                {2, 1.5,  true}, {2, 2.25, true}, {2, 3.0, false},
                {3, 6.0, false},
                {4, 8.5,  true}, {4, 10.0, false},
            };

            for (std::size_t i = 0; i < steps.size(); ++i) {
                const auto& s = steps[i];

                Opm::out::Summary::GlobalProcessParameters single;
                single["FPR"] = (200.0 + 3.0*i) * 1.0e5;

                std::map<std::pair<std::string, int>, double> block;
                block[{"BPR",  1}] = (210.0 + i) * 1.0e5;
                block[{"BPR", 14}] = (220.0 + i) * 1.0e5;
                block[{"BPR", 27}] = (230.0 + i) * 1.0e5;

                writer.eval(st, s.rstep, s.t * day, wells, wbp, grp,
                            single, {}, {}, {}, block);
                writer.add_timestep(st, s.rstep, s.sub);
                writer.write(i + 1 == steps.size());
            }
        }

        // ---- read back ---------------------------------------------------
        if (!fs::exists("CASE.ESMRY")) {
            fail("writer did not produce CASE.ESMRY");
            return 1;
        }

        // keep the ESMRY file the writer produced, so that the conversion
        // can create its own CASE.ESMRY
        fs::rename("CASE.ESMRY", "DIRECT.ESMRY");

        Opm::EclIO::ESmry legacy("CASE.SMSPEC");
        std::cout << "  legacy reader: start date " << fmt_time(legacy.startdate()) << '\n';

        const auto expect_start = Opm::TimeService::from_time_t(sched.getStartTime());
        if (legacy.startdate() != expect_start)
            fail("legacy reader: start date " + fmt_time(legacy.startdate()) +
                 ", schedule has " + fmt_time(expect_start));

        const std::vector<std::pair<std::string, std::string>> keys {
            {"TIME", "TIME"}, {"YEARS", "YEARS"}, {"FPR", "FPR"}, {"FOPR", "FOPR"}, {"FOPT", "FOPT"},
            {"BPR:1,1,1", "BPR:1,1,1"}, {"BPR:2,2,2", "BPR:2,2,2"}, {"BPR:3,3,3", "BPR:3,3,3"},
        };

        {
            Opm::EclIO::ExtESmry direct("DIRECT.ESMRY");
            check_esmry("ESMRY written by the summary writer", legacy, direct, keys);
        }

        {
            Opm::EclIO::ESmry conv("CASE.SMSPEC");
            if (!conv.make_esmry_file())
                fail("SMSPEC -> ESMRY conversion refused");
            else {
                Opm::EclIO::ExtESmry converted("CASE.ESMRY");
                check_esmry("ESMRY converted from SMSPEC", legacy, converted, keys);
            }
        }
    }
    catch (const std::exception& e) {
        fail(std::string("exception: ") + e.what());
    }

    fs::current_path(fs::temp_directory_path());
    fs::remove_all(work);

    if (nerr == 0) {
        std::cout << "OK: all readers agree with what was written\n";
        return 0;
    }

    std::cout << nerr << " difference(s)\n";
    return 1;
}
