// Replay for C11.packer (time_point clause): MemPacker transfers a time_point as std::time_t (whole seconds), the type
// itself counts milliseconds.  A value with a fractional second does not survive pack/unpack, and neither does a Schedule
// whose report steps are shorter than a second apart.  exit 1 = reproduces.
#include <opm/common/utility/MemPacker.hpp>
#include <opm/common/utility/Serializer.hpp>
#include <opm/common/utility/TimeService.hpp>
#include <opm/input/eclipse/Deck/Deck.hpp>
#include <opm/input/eclipse/EclipseState/EclipseState.hpp>
#include <opm/input/eclipse/Parser/Parser.hpp>
#include <opm/input/eclipse/Python/Python.hpp>
#include <opm/input/eclipse/Schedule/Schedule.hpp>
#include <opm/input/eclipse/Schedule/Schedule.hpp>
#include <opm/input/eclipse/Schedule/ScheduleStatic.hpp>
#include <opm/input/eclipse/Schedule/Well/Well.hpp>
#include <opm/input/eclipse/Schedule/Action/ASTNode.hpp>
#include <opm/input/eclipse/Schedule/Action/ActionAST.hpp>
#include <opm/input/eclipse/Schedule/Action/ActionResult.hpp>
#include <opm/input/eclipse/Schedule/Action/ActionX.hpp>
#include <opm/input/eclipse/Schedule/Action/Actions.hpp>
#include <opm/input/eclipse/Schedule/Action/Condition.hpp>
#include <opm/input/eclipse/Schedule/Action/PyAction.hpp>
#include <opm/input/eclipse/Schedule/Action/State.hpp>
#include <opm/input/eclipse/Schedule/Events.hpp>
#include <opm/input/eclipse/Schedule/GasLiftOpt.hpp>
#include <opm/input/eclipse/Schedule/Group/GConSale.hpp>
#include <opm/input/eclipse/Schedule/Group/GConSump.hpp>
#include <opm/input/eclipse/Schedule/Group/Group.hpp>
#include <opm/input/eclipse/Schedule/Group/GroupEconProductionLimits.hpp>
#include <opm/input/eclipse/Schedule/Group/GuideRateConfig.hpp>
#include <opm/input/eclipse/Schedule/Group/GuideRateModel.hpp>
#include <opm/input/eclipse/Schedule/MSW/AICD.hpp>
#include <opm/input/eclipse/Schedule/MSW/SICD.hpp>
#include <opm/input/eclipse/Schedule/MSW/Valve.hpp>
#include <opm/input/eclipse/Schedule/MSW/WellSegments.hpp>
#include <opm/input/eclipse/Schedule/MSW/icd.hpp>
#include <opm/input/eclipse/Schedule/MessageLimits.hpp>
#include <opm/input/eclipse/Schedule/Network/Balance.hpp>
#include <opm/input/eclipse/Schedule/Network/ExtNetwork.hpp>
#include <opm/input/eclipse/Schedule/Network/Node.hpp>
#include <opm/input/eclipse/Schedule/OilVaporizationProperties.hpp>
#include <opm/input/eclipse/Schedule/ResCoup/ReservoirCouplingInfo.hpp>
#include <opm/input/eclipse/Schedule/RFTConfig.hpp>
#include <opm/input/eclipse/Schedule/RPTConfig.hpp>
#include <opm/input/eclipse/Schedule/RSTConfig.hpp>
#include <opm/input/eclipse/Schedule/Schedule.hpp>
#include <opm/input/eclipse/Schedule/ScheduleTypes.hpp>
#include <opm/input/eclipse/Schedule/SummaryState.hpp>
#include <opm/input/eclipse/Schedule/Tuning.hpp>
#include <opm/input/eclipse/Schedule/UDQ/UDQASTNode.hpp>
#include <opm/input/eclipse/Schedule/UDQ/UDQActive.hpp>
#include <opm/input/eclipse/Schedule/UDQ/UDQAssign.hpp>
#include <opm/input/eclipse/Schedule/UDQ/UDQConfig.hpp>
#include <opm/input/eclipse/Schedule/UDQ/UDQDefine.hpp>
#include <opm/input/eclipse/Schedule/UDQ/UDQFunction.hpp>
#include <opm/input/eclipse/Schedule/UDQ/UDQFunctionTable.hpp>
#include <opm/input/eclipse/Schedule/UDQ/UDQInput.hpp>
#include <opm/input/eclipse/Schedule/UDQ/UDQState.hpp>
#include <opm/input/eclipse/Schedule/VFPInjTable.hpp>
#include <opm/input/eclipse/Schedule/VFPProdTable.hpp>
#include <opm/input/eclipse/Schedule/Well/Connection.hpp>
#include <opm/input/eclipse/Schedule/Well/FilterCake.hpp>
#include <opm/input/eclipse/Schedule/Well/NameOrder.hpp>
#include <opm/input/eclipse/Schedule/Well/PAvg.hpp>
#include <opm/input/eclipse/Schedule/Well/WDFAC.hpp>
#include <opm/input/eclipse/Schedule/Well/WList.hpp>
#include <opm/input/eclipse/Schedule/Well/WListManager.hpp>
#include <opm/input/eclipse/Schedule/Well/WVFPDP.hpp>
#include <opm/input/eclipse/Schedule/Well/WVFPEXP.hpp>
#include <opm/input/eclipse/Schedule/Well/Well.hpp>
#include <opm/input/eclipse/Schedule/Well/WellBrineProperties.hpp>
#include <opm/input/eclipse/Schedule/Well/WellConnections.hpp>
#include <opm/input/eclipse/Schedule/Well/WellEconProductionLimits.hpp>
#include <opm/input/eclipse/Schedule/Well/WellFoamProperties.hpp>
#include <opm/input/eclipse/Schedule/Well/WellMICPProperties.hpp>
#include <opm/input/eclipse/Schedule/Well/WellPolymerProperties.hpp>
#include <opm/input/eclipse/Schedule/Well/WellTestConfig.hpp>
#include <opm/input/eclipse/Schedule/Well/WellTestState.hpp>
#include <opm/input/eclipse/Schedule/Well/WellTracerProperties.hpp>
#include <opm/input/eclipse/Schedule/WriteRestartFileEvents.hpp>
#include <opm/input/eclipse/Schedule/Group/GuideRate.hpp>
#include <opm/input/eclipse/Schedule/ScheduleState.hpp>
#include <opm/input/eclipse/Schedule/Well/WellMatcher.hpp>
#include <chrono>
#include <iostream>
#include <memory>
int main() {
    int bad = 0;
    {
        Opm::time_point t = Opm::TimeService::from_time_t(1000000) + std::chrono::milliseconds(864);
        Opm::Serialization::MemPacker packer;
        Opm::Serializer ser(packer);
        ser.pack(t);
        Opm::time_point u;
        ser.unpack(u);
        const auto lost = std::chrono::duration_cast<std::chrono::milliseconds>(t - u).count();
        std::cout << "time_point with 864 ms: " << lost << " ms lost in pack/unpack\n";
        if (lost != 0) ++bad;
    }
    {
        const std::string deck = R"(
RUNSPEC
DIMENS
 1 1 1 /
START
 1 JAN 2020 /
GRID
DX
 100 /
DY
 100 /
DZ
 10 /
TOPS
 2000 /
PORO
 0.3 /
PERMX
 100 /
PERMY
 100 /
PERMZ
 10 /
SCHEDULE
TSTEP
 0.00001 0.00001 /
END
)";
        auto d = Opm::Parser{}.parseString(deck);
        Opm::EclipseState es(d);
        Opm::Schedule sched(d, es, std::make_shared<Opm::Python>());
        Opm::Serialization::MemPacker packer;
        Opm::Serializer ser(packer);
        ser.pack(sched);
        Opm::Schedule copy;
        ser.unpack(copy);
        std::cout << "schedule with two steps of 0.864 s: step lengths " << sched.stepLength(0) << ", " << sched.stepLength(1)
                  << " s; after pack/unpack " << copy.stepLength(0) << ", " << copy.stepLength(1) << " s; equal: " << (sched == copy) << "\n";
        if (!(sched == copy)) ++bad;
    }
    return bad ? 1 : 0;
}
