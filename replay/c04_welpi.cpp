// Concrete replay for the C03.through / C04 finding: WELPI applied from an ACTIONX at report step n
// rescales connection factors in place, through the WellConnections object that earlier report steps
// share.   exit 1 = states before n change.
#include <opm/input/eclipse/Deck/Deck.hpp>
#include <opm/input/eclipse/EclipseState/EclipseState.hpp>
#include <opm/input/eclipse/Parser/Parser.hpp>
#include <opm/input/eclipse/Python/Python.hpp>
#include <opm/input/eclipse/Schedule/Action/ActionResult.hpp>
#include <opm/input/eclipse/Schedule/Action/ActionX.hpp>
#include <opm/input/eclipse/Schedule/Action/Actions.hpp>
#include <opm/input/eclipse/Schedule/Action/SimulatorUpdate.hpp>
#include <opm/input/eclipse/Schedule/Schedule.hpp>
#include <opm/input/eclipse/Schedule/Well/Well.hpp>
#include <opm/input/eclipse/Schedule/Well/WellConnections.hpp>
#include <opm/input/eclipse/Schedule/Well/Connection.hpp>
#include <iostream>
#include <unordered_map>

static const char* DECK = R"(
RUNSPEC
DIMENS
 3 3 3 /
OIL
WATER
START
 1 JAN 2020 /
GRID
DX
 27*100 /
DY
 27*100 /
DZ
 27*10 /
TOPS
 9*2000 /
PORO
 27*0.3 /
PERMX
 27*100 /
PERMY
 27*100 /
PERMZ
 27*10 /
SCHEDULE
WELSPECS
 'P1' 'G' 1 1 2005 OIL /
/
COMPDAT
 'P1' 1 1 1 2 OPEN 1* 1* 0.2 /
/
WCONPROD
 'P1' OPEN ORAT 100 /
/
ACTIONX
 'A' 1 /
 FOPR > 1 /
/
WELPI
 'P1' 50 /
/
ENDACTIO
TSTEP
 10 10 10 10 /
END
)";

int main() {
    auto deck = Opm::Parser{}.parseString(DECK);
    Opm::EclipseState es(deck);
    Opm::Schedule sched(deck, es, std::make_shared<Opm::Python>());
    auto cf = [&](std::size_t step) { return sched.getWell("P1", step).getConnections()[0].CF(); };
    const double cf0 = cf(0), cf1 = cf(1), cf2 = cf(2);
    const auto& action = sched[2].actions()["A"];
    std::unordered_map<std::string, double> wellpi{{"P1", 1.0e-9}};
    sched.applyAction(2, action, Opm::Action::Result{true}.wells({"P1"}).matches(), wellpi);
    std::cout << "CF at step 0: before " << cf0 << " after " << cf(0) << "\n"
              << "CF at step 1: before " << cf1 << " after " << cf(1) << "\n"
              << "CF at step 2: before " << cf2 << " after " << cf(2) << " (the action's own step: may change)\n";
    bool changed = cf(0) != cf0 || cf(1) != cf1;
    std::cout << (changed ? "WRONG: report steps before the action changed" : "ok: earlier report steps untouched") << "\n";
    return changed ? 1 : 0;
}
