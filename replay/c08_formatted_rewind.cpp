// Replay: rewinding a FORMATTED unified restart file leaves one stray byte (the header line is 30 characters
// plus a newline = 31 bytes; EclFile::seekPosition subtracts 30).  exit 1 = rewound file differs from a fresh file.
#include <opm/io/eclipse/OutputStream.hpp>
#include <filesystem>
#include <fstream>
#include <iostream>
#include <iterator>
#include <vector>
namespace OS = Opm::EclIO::OutputStream;
static std::string slurp(const std::string& f) { std::ifstream i(f, std::ios::binary); return {std::istreambuf_iterator<char>(i), {}}; }
static void writeSteps(const std::string& dir, const std::vector<int>& steps, bool fmt) {
    std::filesystem::create_directories(dir);
    for (int s : steps) {
        OS::Restart rst(OS::ResultSet{dir, "CASE"}, s, OS::Formatted{fmt}, OS::Unified{true});
        rst.write("INTEHEAD", std::vector<int>{s, 1, 2, 3});
        rst.write("PRESSURE", std::vector<float>{1.0f * s, 2.0f, 3.0f});
    }
}
int main() {
    auto base = std::filesystem::temp_directory_path() / "verif_c08";
    std::filesystem::remove_all(base);
    int bad = 0;
    for (bool fmt : {false, true}) {
        const std::string a = (base / (fmt ? "fa" : "ua")).string(), b = (base / (fmt ? "fb" : "ub")).string();
        writeSteps(a, {0, 1, 2, 3, 1, 2}, fmt);      // rewind to step 1
        writeSteps(b, {0, 1, 2}, fmt);               // fresh file with the surviving steps
        const auto fa = slurp(a + (fmt ? "/CASE.FUNRST" : "/CASE.UNRST")), fb = slurp(b + (fmt ? "/CASE.FUNRST" : "/CASE.UNRST"));
        std::cout << (fmt ? "formatted  " : "unformatted") << ": rewound " << fa.size() << " bytes, fresh " << fb.size() << " bytes -> " << (fa == fb ? "identical" : "DIFFERENT") << "\n";
        if (fa != fb) ++bad;
    }
    return bad ? 1 : 0;
}
