// Concrete replay for the C09.total findings: a cumulative that is not classified as a total
// (a) by SummaryConfig gets no well efficiency factor, (b) by SummaryState is overwritten instead
// of accumulated.   exit 1 = a finding reproduces, 0 = none does.
#include <opm/output/eclipse/Summary.hpp>
#include <opm/output/data/Wells.hpp>
#include <opm/output/data/Groups.hpp>
#include <opm/output/eclipse/Inplace.hpp>
#include <opm/output/data/Aquifer.hpp>
#include <opm/input/eclipse/Deck/Deck.hpp>
#include <opm/input/eclipse/EclipseState/EclipseState.hpp>
#include <opm/input/eclipse/EclipseState/SummaryConfig/SummaryConfig.hpp>
#include <opm/input/eclipse/Parser/Parser.hpp>
#include <opm/input/eclipse/Python/Python.hpp>
#include <opm/input/eclipse/Schedule/Schedule.hpp>
#include <opm/input/eclipse/Schedule/SummaryState.hpp>
#include <opm/input/eclipse/Schedule/Well/Well.hpp>
#include <opm/common/utility/TimeService.hpp>
#include <opm/input/eclipse/Units/Units.hpp>
#include <cmath>
#include <fstream>
#include <iostream>
#include <sstream>
#include <filesystem>

using rt = Opm::data::Rates::opt;

int main() {
    std::ifstream in("/repo/tests/SUMMARY_EFF_FAC.DATA");
    std::stringstream ss; ss << in.rdbuf();
    std::string deck_text = ss.str();
    const std::string extra = "SUMMARY\nWOPT\n/\nWEPT\n/\nWSPT\n/\nWWPT\n/\nGOPT\n/\nGEPT\n/\nFWIT\nFOIT\n";
    auto pos = deck_text.find("SUMMARY\n");
    deck_text.replace(pos, 8, extra);
    {
        const std::string udq = "SCHEDULE\nUDQ\n DEFINE FUFLIT FLIT /\n UNITS FUFLIT SM3 /\n/\n";
        auto p2 = deck_text.find("SCHEDULE\n");
        deck_text.replace(p2, 9, udq);
        auto p3 = deck_text.find("FWIT\n");
        deck_text.replace(p3, 0, "FUFLIT\n");
    }
    auto cwd = std::filesystem::temp_directory_path() / "verif_c09";
    std::filesystem::create_directories(cwd);
    std::filesystem::current_path(cwd);

    auto deck = Opm::Parser{}.parseString(deck_text);
    Opm::EclipseState es(deck);
    Opm::Schedule sched(deck, es, std::make_shared<Opm::Python>());
    Opm::SummaryConfig config(deck, sched, es.fieldProps(), es.aquifer());

    const double day = 86400.0;
    Opm::data::Wells wells;
    {   // W_2: producer with WEFAC 0.2 (negative rates = production)
        Opm::data::Well w;
        w.rates.set(rt::oil, -10.0/day).set(rt::wat, -4.0/day).set(rt::energy, -5.0/day).set(rt::brine, -3.0/day);
        w.dynamicStatus = Opm::Well::Status::OPEN;
        wells["W_2"] = w;
    }
    {   // W_3 as injector of water and oil (for FLIT)
        Opm::data::Well w;
        w.rates.set(rt::oil, 2.0/day).set(rt::wat, 6.0/day);
        w.dynamicStatus = Opm::Well::Status::OPEN;
        w.current_control.isProducer = false;
        wells["W_3"] = w;
    }
    Opm::SummaryState st(Opm::TimeService::now(), 0.0);
    Opm::out::Summary writer(config, es, es.getInputGrid(), sched, "C09");
    Opm::data::WellBlockAveragePressures wbp;
    Opm::data::GroupAndNetworkValues gn;
    for (int step = 0; step <= 2; ++step)
        writer.eval(st, step, step * day, wells, wbp, gn, {}, {}, {});

    int bad = 0;
    auto wv = [&](const char* k) { return st.get_well_var("W_2", k); };
    std::cout << "W_2: WOPT=" << wv("WOPT") << " WWPT=" << wv("WWPT") << " WEPT=" << wv("WEPT") << " WSPT=" << wv("WSPT") << "\n";
    // all four are rate * WEFAC * dt summed over 2 days; rates 10, 4 (volumes), 5 (energy), 3 (mass)
    const double f_oil = wv("WOPT") / (10.0 * 2), f_wat = wv("WWPT") / (4.0 * 2);
    std::cout << "applied factor: WOPT " << f_oil << "  WWPT " << f_wat << "\n";
    auto chk = [&](const char* what, double got, double want) {
        bool ok = std::fabs(got - want) <= 1e-6 * std::max(1.0, std::fabs(want));
        std::cout << (ok ? "ok    " : "WRONG ") << what << " = " << got << " (expected " << want << ")\n";
        if (!ok) ++bad;
    };
    // unit-free check: the energy and salt totals must carry the same efficiency factor as oil
    const auto& usys = es.getUnits();
    chk("WEPT factor", wv("WEPT") / usys.from_si(Opm::UnitSystem::measure::energy, 5.0 * 2), f_oil);
    chk("WSPT factor", wv("WSPT") / usys.from_si(Opm::UnitSystem::measure::mass, 3.0 * 2), f_oil);
    chk("GEPT/GOPT same factor (G_2)", st.get_group_var("G_2", "GEPT") / usys.from_si(Opm::UnitSystem::measure::energy, 5.0 * 2),
        st.get_group_var("G_2", "GOPT") / (10.0 * 2));
    if (st.has("FLIT")) chk("FLIT = FWIT + FOIT", st.get("FLIT"), st.get("FWIT") + st.get("FOIT"));
    return bad ? 1 : 0;
}
