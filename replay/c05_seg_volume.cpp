// Concrete replay for the C05.unit finding on RSEG[SegVolume]: the restart writer stores the segment volume as
// length^3 (ft3 in FIELD units), RstSegment reads it back with measure::volume (rb in FIELD units).
// exit 1 = the segment volume rebuilt from the restart arrays differs.
#include <opm/input/eclipse/Deck/Deck.hpp>
#include <opm/input/eclipse/EclipseState/EclipseState.hpp>
#include <opm/input/eclipse/Parser/Parser.hpp>
#include <opm/input/eclipse/Python/Python.hpp>
#include <opm/input/eclipse/Schedule/MSW/SICD.hpp>
#include <opm/input/eclipse/Schedule/MSW/Segment.hpp>
#include <opm/input/eclipse/Schedule/MSW/WellSegments.hpp>
#include <opm/input/eclipse/Schedule/Schedule.hpp>
#include <opm/input/eclipse/Schedule/SummaryState.hpp>
#include <opm/input/eclipse/Schedule/Well/Well.hpp>
#include <opm/io/eclipse/rst/segment.hpp>
#include <opm/output/data/Wells.hpp>
#include <opm/output/eclipse/AggregateMSWData.hpp>
#include <opm/output/eclipse/InteHEAD.hpp>
#include <opm/output/eclipse/VectorItems/intehead.hpp>
#include <opm/output/eclipse/WriteRestartHelpers.hpp>
#include <opm/common/utility/TimeService.hpp>
#include <cmath>
#include <iostream>
#include <string>

static std::string deck(const char* units)
{
    return std::string(R"(RUNSPEC
DIMENS
 20 1 5 /
OIL
WATER
)") + units + R"(
WELLDIMS
 2 10 2 2 /
WSEGDIMS
 1 10 3 /
START
 1 JAN 2020 /
GRID
DX
 100*100 /
DY
 100*100 /
DZ
 100*10 /
TOPS
 20*2500 /
PORO
 100*0.2 /
PERMX
 100*100 /
PERMY
 100*100 /
PERMZ
 100*10 /
SCHEDULE
WELSPECS
 'PROD01' 'G' 20 1 2512.5 OIL /
/
COMPDAT
 'PROD01' 20 1 1 3 OPEN 1* 1* 0.2 /
 'PROD01' 19 1 2 2 OPEN 1* 1* 0.2 /
 'PROD01' 18 1 2 2 OPEN 1* 1* 0.2 /
/
WELSEGS
 'PROD01' 2512.5 2512.5 1.0e-5 'ABS' 'HF-' 'HO' /
 2 2 1 1 2537.5 2537.5 0.3 0.00010 /
 3 3 1 2 2562.5 2562.5 0.2 0.00010 /
 4 4 2 2 2737.5 2537.5 0.2 0.00010 /
 5 5 2 4 3037.5 2539.5 0.2 0.00010 /
/
COMPSEGS
 'PROD01' /
 20 1 1 1 2512.5 2525.0 /
 20 1 2 1 2525.0 2550.0 /
 20 1 3 1 2550.0 2575.0 /
 19 1 2 2 2637.5 2837.5 /
 18 1 2 2 2837.5 3037.5 /
/
WSEGSICD
 'PROD01' 5 5 0.002 -0.7 1* 1* 0.6 1* 1* 1* 250.0 'OPEN' /
/
TSTEP
 10 /
)";
}

static int run(const char* units)
{
    namespace VI = Opm::RestartIO::Helpers::VectorItems;
    Opm::Parser parser;
    const auto d = parser.parseString(deck(units));
    Opm::EclipseState es(d);
    Opm::Schedule sched(d, es, std::make_shared<Opm::Python>());
    const std::size_t step = 0;
    const auto ih = Opm::RestartIO::Helpers::createInteHead(es, es.getInputGrid(), sched, 0.0, step, step + 1, step);
    Opm::SummaryState smry(Opm::TimeService::now(), 0.0);
    Opm::RestartIO::Helpers::AggregateMSWData msw(ih);
    msw.captureDeclaredMSWData(sched, step, es.getUnits(), ih, es.getInputGrid(), smry, Opm::data::Wells{});
    const auto& seg = sched.getWell("PROD01", step).getSegments().getFromSegmentNumber(3);
    const double before = seg.volume();
    const auto nrsegz = ih[VI::intehead::NRSEGZ], nisegz = ih[VI::intehead::NISEGZ];
    const auto& rseg = msw.getRSeg();
    const auto& iseg = msw.getISeg();
    Opm::RestartIO::RstSegment rs(es.getUnits(), 3, iseg.data() + 2 * nisegz, rseg.data() + 2 * nrsegz);
    const double after = rs.volume;
    std::cout << units << ": segment 3 volume in SI before save " << before << ", rebuilt from RSEG " << after
              << (std::abs(after - before) > 1e-9 * before ? "   DIFFERS (x" + std::to_string(after / before) + ")" : "") << '\n';
    return std::abs(after - before) > 1e-9 * before;
}

int main()
{
    int bad = run("METRIC");
    bad += run("FIELD");
    std::cout << (bad ? "FAIL\n" : "OK\n");
    return bad ? 1 : 0;
}
