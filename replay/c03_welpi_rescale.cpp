// Replay: Schedule::applyWellProdIndexScaling(well, n, pi) (called by the simulator when a WELPI target is
// reached at report step n) rescales in place; if the Well object of step n is shared with earlier steps
// (second WELPI on unchanged connections) the earlier steps change too.  exit 1 = reproduces.
#include <opm/input/eclipse/Deck/Deck.hpp>
#include <opm/input/eclipse/EclipseState/EclipseState.hpp>
#include <opm/input/eclipse/Parser/Parser.hpp>
#include <opm/input/eclipse/Python/Python.hpp>
#include <opm/input/eclipse/Schedule/Schedule.hpp>
#include <opm/input/eclipse/Schedule/Well/Well.hpp>
#include <opm/input/eclipse/Schedule/Well/WellConnections.hpp>
#include <opm/input/eclipse/Schedule/Well/Connection.hpp>
#include <iostream>

static const char* DECK = R"(
RUNSPEC
DIMENS
 3 3 3 /
OIL
WATER
START
 1 JAN 2020 /
GRID
DX
 27*100 /
DY
 27*100 /
DZ
 27*10 /
TOPS
 9*2000 /
PORO
 27*0.3 /
PERMX
 27*100 /
PERMY
 27*100 /
PERMZ
 27*10 /
SCHEDULE
WELSPECS
 'P1' 'G' 1 1 2005 OIL /
/
COMPDAT
 'P1' 1 1 1 2 OPEN 1* 1* 0.2 /
/
WCONPROD
 'P1' OPEN ORAT 100 /
/
TSTEP
 10 /
WELPI
 'P1' 50 /
/
TSTEP
 10 10 /
WELPI
 'P1' 80 /
/
TSTEP
 10 10 /
END
)";

int main() {
    auto deck = Opm::Parser{}.parseString(DECK);
    Opm::EclipseState es(deck);
    Opm::Schedule sched(deck, es, std::make_shared<Opm::Python>());
    auto cf = [&](std::size_t step) { return sched.getWell("P1", step).getConnections()[0].CF(); };
    double before[5]; for (int s = 0; s < 5; ++s) before[s] = cf(s);
    sched.applyWellProdIndexScaling("P1", 3, 1.0e-9);    // the second WELPI is at report step 3
    bool changed = false;
    for (int s = 0; s < 5; ++s) {
        std::cout << "CF at step " << s << ": before " << before[s] << " after " << cf(s) << (s < 3 && cf(s) != before[s] ? "   <-- earlier step changed" : "") << "\n";
        if (s < 3 && cf(s) != before[s]) changed = true;
    }
    return changed ? 1 : 0;
}
