// Concrete replay for the C03.changed finding: WellEconProductionLimits::operator== does not compare the END_RUN flag and
// Well::updateEconLimits installs new limits only if they compare different: a WECON record that changes nothing but
// the END_RUN flag is silently dropped.   exit 1 = the schedule ignores the WECON of report step 1.
#include <opm/input/eclipse/Deck/Deck.hpp>
#include <opm/input/eclipse/EclipseState/EclipseState.hpp>
#include <opm/input/eclipse/Parser/Parser.hpp>
#include <opm/input/eclipse/Python/Python.hpp>
#include <opm/input/eclipse/Schedule/Schedule.hpp>
#include <opm/input/eclipse/Schedule/Well/Well.hpp>
#include <opm/input/eclipse/Schedule/Well/WellEconProductionLimits.hpp>
#include <iostream>

static const char* DECK = R"(RUNSPEC
DIMENS
 3 3 3 /
OIL
WATER
START
 1 JAN 2020 /
GRID
DX
 27*100 /
DY
 27*100 /
DZ
 27*10 /
TOPS
 9*2000 /
PORO
 27*0.3 /
PERMX
 27*100 /
PERMY
 27*100 /
PERMZ
 27*10 /
SCHEDULE
WELSPECS
 'P1' 'G' 1 1 2005 OIL /
/
COMPDAT
 'P1' 1 1 1 2 OPEN 1* 1* 0.2 /
/
WCONPROD
 'P1' OPEN ORAT 100 /
/
WECON
 'P1' 10 1* 0.9 2* CON NO /
/
TSTEP
 10 /
WECON
 'P1' 10 1* 0.9 2* CON YES /
/
TSTEP
 10 /
)";

int main()
{
    Opm::Parser parser;
    const auto deck = parser.parseString(DECK);
    Opm::EclipseState es(deck);
    Opm::Schedule sched(deck, es, std::make_shared<Opm::Python>());
    const bool e0 = sched.getWell("P1", 0).getEconLimits().endRun();
    const bool e1 = sched.getWell("P1", 1).getEconLimits().endRun();
    std::cout << "WECON END_RUN: report step 0 = " << (e0 ? "YES" : "NO") << " (input NO), report step 1 = " << (e1 ? "YES" : "NO") << " (input YES)\n";
    return (e0 == false && e1 == true) ? 0 : 1;
}
