// Concrete replay for the C18.logic finding: a FALSE well comparison carries an empty-but-present well set into OR, so
// `( FOPR > 100 OR WOPR 'P*' > 1000 ) AND WOPR 'P*' > 100` is true but matches no wells instead of the wells of the last
// comparison ("false sub-conditions contribute no set").  exit 1 = the matching-well set is wrong.
#include <opm/input/eclipse/Schedule/Action/ActionAST.hpp>
#include <opm/input/eclipse/Schedule/Action/ActionContext.hpp>
#include <opm/input/eclipse/Schedule/Action/ActionResult.hpp>
#include <opm/input/eclipse/Schedule/SummaryState.hpp>
#include <opm/input/eclipse/Schedule/Well/WListManager.hpp>
#include <opm/common/utility/TimeService.hpp>
#include <iostream>
#include <string>
#include <vector>

static std::string show(const Opm::Action::Result& r)
{
    std::string s = r.conditionSatisfied() ? "true  {" : "false {";
    for (const auto& w : r.matches().wells().asVector()) s += " " + w;
    return s + " }";
}

int main()
{
    Opm::SummaryState st { Opm::TimeService::now(), 0.0 };
    st.update("FOPR", 500.0);
    st.update_well_var("P1", "WOPR", 300.0);
    st.update_well_var("P2", "WOPR", 50.0);
    st.update_well_var("P3", "WOPR", 200.0);
    const Opm::WListManager wlm {};
    const Opm::Action::Context ctx { st, wlm };

    const auto both = Opm::Action::AST { std::vector<std::string>{ "(", "FOPR", ">", "100", "OR", "WOPR", "P*", ">", "1000", ")", "AND", "WOPR", "P*", ">", "100" } }.eval(ctx);
    const auto last = Opm::Action::AST { std::vector<std::string>{ "WOPR", "P*", ">", "100" } }.eval(ctx);
    std::cout << "( FOPR > 100 OR WOPR 'P*' > 1000 ) AND WOPR 'P*' > 100  ->  " << show(both) << '\n'
              << "                                       WOPR 'P*' > 100  ->  " << show(last) << '\n';
    const bool ok = both.conditionSatisfied() && both.matches().wells().asVector() == last.matches().wells().asVector();
    std::cout << (ok ? "OK\n" : "FAIL: the false well comparison inside the OR contributed an (empty) well set\n");
    return ok ? 0 : 1;
}
