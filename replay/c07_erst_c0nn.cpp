// Replay for C07.getsel: ERst::getRestartData<std::string>(name, step, occurrence) asks EclFile::getImpl for type CHAR,
// EclFile::get<std::string>(index) for the array's own type (CHAR or C0NN).  A string array with entries longer than 8
// characters (type C0nn) written to a restart file can be read by index but not by name.  exit 1 = reproduces.
#include <opm/io/eclipse/ERst.hpp>
#include <opm/io/eclipse/EclOutput.hpp>
#include <cstdio>
#include <iostream>
#include <string>
#include <vector>
int main() {
    const std::string fn = "/tmp/verif_replay/C0NN.UNRST";
    {
        Opm::EclIO::EclOutput out(fn, false);
        out.write("SEQNUM", std::vector<int>{1});
        out.write("INTEHEAD", std::vector<int>(411, 0));
        out.write("NAMES", std::vector<std::string>{"A_LONG_WELL_NAME_1", "SHORT"});
        out.write("ZWEL", std::vector<std::string>{"W1", "W2"});
    }
    int bad = 0;
    Opm::EclIO::ERst rst(fn);
    for (const char* nm : {"ZWEL", "NAMES"}) {
        try {
            const auto& v = rst.getRestartData<std::string>(nm, 1, 0);
            std::cout << nm << " by name: " << v.size() << " strings, first '" << v[0] << "'\n";
        } catch (const std::exception& e) {
            std::cout << nm << " by name: THROW " << e.what() << "\n";
            ++bad;
        }
    }
    std::remove(fn.c_str());
    return bad ? 1 : 0;
}
