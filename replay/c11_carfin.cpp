// Concrete replay for the recorded C11 finding on Opm::Carfin: after pack/unpack of the
// LgrCollection of an EclipseState the LGR answers PARENT_NAME() and index_list() differently.
//   exit 1 = finding reproduces, 0 = it does not.
#include <opm/common/utility/MemPacker.hpp>
#include <opm/common/utility/Serializer.hpp>
#include <opm/input/eclipse/Deck/Deck.hpp>
#include <opm/input/eclipse/EclipseState/EclipseState.hpp>
#include <opm/input/eclipse/EclipseState/Grid/Carfin.hpp>
#include <opm/input/eclipse/EclipseState/Grid/LgrCollection.hpp>
#include <opm/input/eclipse/Parser/Parser.hpp>
#include <iostream>

static const char* DECK = R"(
RUNSPEC
DIMENS
 10 10 10 /
GRID
CARFIN
'LGR1'  5  6  5  6  1  3  6  6  9 /
ENDFIN
DX
1000*1 /
DY
1000*1 /
DZ
1000*1 /
TOPS
100*1 /
PORO
  1000*0.15 /
PERMX
  1000*1 /
COPY
  PERMX PERMY /
  PERMX PERMZ /
/
SCHEDULE
END
)";

int main() {
    auto deck = Opm::Parser{}.parseString(DECK);
    Opm::EclipseState es(deck);
    Opm::LgrCollection in = es.getLgrs(), out;
    Opm::Serialization::MemPacker packer;
    Opm::Serializer ser(packer);
    ser.pack(in);
    ser.unpack(out);
    const auto& a = in.getLgr(0);
    const auto& b = out.getLgr(0);
    int lost = 0;
    std::cout << "PARENT_NAME in='" << a.PARENT_NAME() << "' out='" << b.PARENT_NAME() << "'\n";
    std::cout << "index_list  in=" << a.index_list().size() << " out=" << b.index_list().size() << "\n";
    std::cout << "global_index_list in=" << a.global_index_list().size() << " out=" << b.global_index_list().size() << "\n";
    lost += a.PARENT_NAME() != b.PARENT_NAME();
    lost += a.index_list().size() != b.index_list().size();
    lost += a.global_index_list().size() != b.global_index_list().size();
    std::cout << (lost ? "LOST" : "kept") << "\n";
    return lost ? 1 : 0;
}
