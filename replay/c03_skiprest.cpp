// Concrete replay for the C03.prefix finding on SKIPREST: in a restarted run ScheduleRestartInfo asks the whole
// deck for SKIPREST, so a SKIPREST keyword in the LAST report step decides how every earlier report step is read.
// Run in /repo/tests.  exit 1 = the schedule before the last report step differs with / without the trailing SKIPREST.
#include <opm/input/eclipse/Deck/Deck.hpp>
#include <opm/input/eclipse/EclipseState/EclipseState.hpp>
#include <opm/input/eclipse/Parser/Parser.hpp>
#include <opm/input/eclipse/Python/Python.hpp>
#include <opm/input/eclipse/Schedule/Schedule.hpp>
#include <opm/input/eclipse/Schedule/ScheduleState.hpp>
#include <opm/io/eclipse/ERst.hpp>
#include <opm/io/eclipse/RestartFileView.hpp>
#include <opm/io/eclipse/rst/state.hpp>
#include <fstream>
#include <iostream>
#include <sstream>
#include <string>

static std::string describe(const std::string& text)
{
    try {
        Opm::Parser parser;
        const auto deck = parser.parseString(text);
        Opm::EclipseState es(deck);
        auto rst_file = std::make_shared<Opm::EclIO::ERst>("SPE1CASE2.X0060");
        auto rst_view = std::make_shared<Opm::EclIO::RestartFileView>(std::move(rst_file), 60);
        auto rst_state = Opm::RestartIO::RstState::load(std::move(rst_view), es.runspec(), parser);
        Opm::Schedule sched(deck, es, std::make_shared<Opm::Python>(), false, false, true, {}, &rst_state);
        std::ostringstream os;
        os << "steps=" << sched.size() << " start(60)=" << std::chrono::duration_cast<std::chrono::seconds>(sched[60].start_time().time_since_epoch()).count()
           << " wells(60)=" << sched.wellNames(60).size();
        return os.str();
    } catch (const std::exception& e) {
        return std::string("exception: ") + std::string(e.what()).substr(0, 120);
    }
}

int main()
{
    std::ifstream in("SPE1CASE2_RESTART_SKIPREST.DATA");
    std::stringstream ss; ss << in.rdbuf();
    std::string text = ss.str();
    const auto p = text.find("SKIPREST\n");
    const auto e = text.rfind("END");
    if (p == std::string::npos || e == std::string::npos) { std::cerr << "deck not as expected\n"; return 2; }
    std::string without = text; without.erase(p, 9);
    std::string trailing = without; trailing.insert(trailing.rfind("END"), "SKIPREST\n");
    const auto a = describe(without), b = describe(trailing);
    std::cout << "without SKIPREST            : " << a << "\nSKIPREST in last report step: " << b << '\n';
    return a == b ? 0 : 1;
}
