// Concrete replay for the C18.gate finding: the in-repo mock simulator (msim) applies pending ACTIONX
// objects without recording the run, so max_run is never reached.  exit 1 = reproduces.
#include <opm/msim/msim.hpp>
#include <opm/input/eclipse/Python/Python.hpp>
#include <opm/input/eclipse/EclipseState/EclipseState.hpp>
#include <opm/input/eclipse/EclipseState/Grid/EclipseGrid.hpp>
#include <opm/input/eclipse/EclipseState/SummaryConfig/SummaryConfig.hpp>
#include <opm/input/eclipse/Schedule/SummaryState.hpp>
#include <opm/input/eclipse/Schedule/Schedule.hpp>
#include <opm/input/eclipse/Schedule/Action/Actions.hpp>
#include <opm/input/eclipse/Schedule/Action/ActionX.hpp>
#include <opm/input/eclipse/Schedule/Action/State.hpp>
#include <opm/input/eclipse/Schedule/UDQ/UDQConfig.hpp>
#include <opm/input/eclipse/Schedule/Well/Well.hpp>
#include <opm/input/eclipse/Deck/Deck.hpp>
#include <opm/input/eclipse/Parser/Parser.hpp>
#include <opm/output/eclipse/EclipseIO.hpp>
#include <filesystem>
#include <iostream>
using namespace Opm;

static double opr(const EclipseState&, const Schedule&, const SummaryState&, const data::Solution&, size_t, double) { return -1000.0 / 86400; }

int main() {
#include "/repo/tests/msim/actionx1.include"
    std::string deck_text = actionx1;
    auto rep = [&](const std::string& a, const std::string& b) {
        auto p = deck_text.find(a);
        if (p == std::string::npos) { std::cerr << "pattern not found: " << a << "\n"; std::exit(3); }
        deck_text.replace(p, a.size(), b);
    };
    rep("'SHUT_WELL' 100000 /", "'ONCE' 1 /");
    rep(" WWCT * > 0.50 /", " DAY > 0 /");
    rep("WELOPEN\n  '?' 'SHUT' 0 0 0 2* /\n/", "WTMULT\n  'P1' ORAT 0.5 /\n/");
    auto dir = std::filesystem::temp_directory_path() / "verif_c18";
    std::filesystem::create_directories(dir);
    std::filesystem::current_path(dir);

    auto deck = Parser{}.parseString(deck_text);
    EclipseState state(deck);
    Schedule schedule(deck, state, msim::python);
    SummaryConfig sc(deck, schedule, state.fieldProps(), state.aquifer());
    state.getIOConfig().setBaseName("C18");
    msim sim(state, schedule);
    EclipseIO io(state, state.getInputGrid(), schedule, sc);
    for (const char* w : {"P1", "P2", "P3", "P4"}) sim.well_rate(w, data::Rates::opt::oil, opr);
    const double before = schedule.getWell("P1", schedule.size() - 1).getProductionProperties().OilRate.getSI();
    sim.run(io, false);
    const auto& action = sim.schedule[schedule.size() - 1].actions()["ONCE"];
    const double after = sim.schedule.getWell("P1", schedule.size() - 1).getProductionProperties().OilRate.getSI();
    std::cout << "report steps: " << schedule.size() << "\n"
              << "recorded runs of action ONCE (max_run = 1): " << sim.action_state.run_count(action) << "\n"
              << "P1 ORAT target before " << before << " after " << after << " ratio " << after / before << " (0.5 if applied once)\n";
    bool ok = std::abs(after / before - 0.5) < 1e-9 && sim.action_state.run_count(action) == 1;
    std::cout << (ok ? "ok" : "WRONG: the action ran more often than its maximum count") << "\n";
    return ok ? 0 : 1;
}
