// Replay for C12.lostcopy: update_global_from_local (FieldProps.cpp) copies the global value status into a local
// (`auto to_st = *data.global_value_status;`) and writes the statuses of the cells an operation touched into that copy.
// The global status of a cell set by EQUALREG/ADDREG/... or OPERATE therefore stays `uninitialized`, and a later defaulted entry of the
// same keyword overwrites the global value (not the per-active-cell value).  exit 1 = reproduces.
#include <opm/input/eclipse/Deck/Deck.hpp>
#include <opm/input/eclipse/EclipseState/EclipseState.hpp>
#include <opm/input/eclipse/EclipseState/Grid/FieldPropsManager.hpp>
#include <opm/input/eclipse/Parser/Parser.hpp>
#include <iostream>
#include <string>
int main() {
    const std::string deck = R"(
RUNSPEC
DIMENS
 2 1 2 /
GRID
DX
 4*100 /
DY
 4*100 /
DZ
 4*10 /
TOPS
 2*2000 /
PORO
 4*0.3 /
PERMY
 4*100 /
PERMZ
 4*10 /
MULTNUM
 4*1 /
EQUALREG
 PERMX 100 1 M /
/
PERMX
 4* /
END
)";
    int bad = 0;
    try {
        auto d = Opm::Parser{}.parseString(deck);
        Opm::EclipseState es(d);
        const auto a = es.fieldProps().get_double("PERMX");
        const auto g = es.fieldProps().get_global_double("PERMX");
        std::cout << "per active cell:";
        for (double v : a) std::cout << " " << v;
        std::cout << "\nglobal         :";
        for (double v : g) std::cout << " " << v;
        std::cout << "\n";
        for (std::size_t i = 0; i < a.size(); ++i)
            if (a[i] != g[i]) { ++bad; }
        if (bad) std::cout << "WRONG: EQUALREG PERMX 5 followed by an all-defaulted PERMX array: the global array lost the 5\n";
    } catch (const std::exception& e) {
        std::cout << "THROW " << e.what() << "\n";
        return 2;
    }
    return bad ? 1 : 0;
}
