// Concrete replay for the C20.cursor finding in ESmry::ESmry: the UNSMRY scan reads arraySourceList[i+1] and, after i++,
// arraySourceList[i] without testing the bound, so a summary file that ends right after a MINISTEP array (truncated
// before PARAMS) is read past the end of the array list.  Run in a directory with SPE1CASE1.SMSPEC (tests/).
// The load runs in a child process.  exit 1 = the child dies from a signal instead of raising a std::exception.
#include <opm/io/eclipse/ESmry.hpp>
#include <opm/io/eclipse/EclOutput.hpp>
#include <sys/wait.h>
#include <unistd.h>
#include <filesystem>
#include <iostream>
#include <string>
#include <vector>

int main()
{
    namespace fs = std::filesystem;
    const fs::path dir = fs::temp_directory_path() / "verif_replay_esmry";
    fs::create_directories(dir);
    fs::copy_file("SPE1CASE1.SMSPEC", dir / "TRUNC.SMSPEC", fs::copy_options::overwrite_existing);
    {
        Opm::EclIO::EclOutput out((dir / "TRUNC.UNSMRY").string(), false);
        out.write("SEQHDR", std::vector<int>{0});
        out.write("MINISTEP", std::vector<int>{0});      // ... and nothing after it
    }
    const pid_t pid = fork();
    if (pid == 0) {
        try {
            Opm::EclIO::ESmry smry((dir / "TRUNC.SMSPEC").string());
            _exit(0);
        } catch (const std::exception&) {
            _exit(3);
        }
    }
    int status = 0;
    waitpid(pid, &status, 0);
    if (WIFSIGNALED(status)) {
        std::cout << "ESmry on a UNSMRY ending after MINISTEP: killed by signal " << WTERMSIG(status) << "\nFAIL\n";
        return 1;
    }
    std::cout << "ESmry on a UNSMRY ending after MINISTEP: " << (WEXITSTATUS(status) == 0 ? "loaded" : "std::exception") << "\nOK\n";
    return 0;
}
