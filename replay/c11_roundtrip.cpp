// Concrete replay for the C11.ser findings: members that serializeOp does not transfer are
// observably different after pack/unpack.  Not a deciding step of any check: it is the
// demonstration required before a report on the unchanged tree is believed.
//   exit 0 = every probed member survives the round trip, 1 = at least one is lost.
#include <opm/common/utility/MemPacker.hpp>
#include <opm/common/utility/Serializer.hpp>
#include <opm/input/eclipse/Deck/Deck.hpp>
#include <opm/input/eclipse/EclipseState/EclipseState.hpp>
#include <opm/input/eclipse/EclipseState/Runspec.hpp>
#include <opm/input/eclipse/EclipseState/SummaryConfig/SummaryConfig.hpp>
#include <opm/input/eclipse/Parser/Parser.hpp>
#include <opm/input/eclipse/Python/Python.hpp>
#include <opm/input/eclipse/Schedule/Schedule.hpp>
#include <opm/input/eclipse/Schedule/ScheduleStatic.hpp>
#include <opm/input/eclipse/Schedule/Well/Well.hpp>
#include <opm/common/OpmLog/KeywordLocation.hpp>
#include <opm/output/data/Aquifer.hpp>
#include <opm/output/eclipse/RestartValue.hpp>
#include <opm/input/eclipse/Deck/Deck.hpp>
#include <opm/input/eclipse/Deck/DeckItem.hpp>
#include <opm/input/eclipse/EclipseState/Aquifer/Aquancon.hpp>
#include <opm/input/eclipse/EclipseState/Aquifer/AquiferCT.hpp>
#include <opm/input/eclipse/EclipseState/Aquifer/AquiferConfig.hpp>
#include <opm/input/eclipse/EclipseState/Aquifer/Aquifetp.hpp>
#include <opm/input/eclipse/EclipseState/EclipseConfig.hpp>
#include <opm/input/eclipse/EclipseState/Grid/FaceDir.hpp>
#include <opm/input/eclipse/EclipseState/Grid/Fault.hpp>
#include <opm/input/eclipse/EclipseState/Grid/FaultCollection.hpp>
#include <opm/input/eclipse/EclipseState/Grid/FaultFace.hpp>
#include <opm/input/eclipse/EclipseState/Grid/FIPRegionStatistics.hpp>
#include <opm/input/eclipse/EclipseState/Grid/MULTREGTScanner.hpp>
#include <opm/input/eclipse/EclipseState/Grid/NNC.hpp>
#include <opm/input/eclipse/EclipseState/Grid/TranCalculator.hpp>
#include <opm/input/eclipse/EclipseState/Grid/TransMult.hpp>
#include <opm/input/eclipse/EclipseState/IOConfig/IOConfig.hpp>
#include <opm/input/eclipse/EclipseState/InitConfig/Equil.hpp>
#include <opm/input/eclipse/EclipseState/InitConfig/FoamConfig.hpp>
#include <opm/input/eclipse/EclipseState/InitConfig/InitConfig.hpp>
#include <opm/input/eclipse/EclipseState/Runspec.hpp>
#include <opm/input/eclipse/EclipseState/SimulationConfig/BCConfig.hpp>
#include <opm/input/eclipse/EclipseState/SimulationConfig/DatumDepth.hpp>
#include <opm/input/eclipse/EclipseState/SimulationConfig/RockConfig.hpp>
#include <opm/input/eclipse/EclipseState/SimulationConfig/SimulationConfig.hpp>
#include <opm/input/eclipse/EclipseState/SimulationConfig/ThresholdPressure.hpp>
#include <opm/input/eclipse/EclipseState/SummaryConfig/SummaryConfig.hpp>
#include <opm/input/eclipse/EclipseState/Tables/Aqudims.hpp>
#include <opm/input/eclipse/EclipseState/Tables/ColumnSchema.hpp>
#include <opm/input/eclipse/EclipseState/Tables/DenT.hpp>
#include <opm/input/eclipse/EclipseState/Tables/Eqldims.hpp>
#include <opm/input/eclipse/EclipseState/Tables/EzrokhiTable.hpp>
#include <opm/input/eclipse/EclipseState/Tables/FlatTable.hpp>
#include <opm/input/eclipse/EclipseState/Tables/JFunc.hpp>
#include <opm/input/eclipse/EclipseState/Tables/PlymwinjTable.hpp>
#include <opm/input/eclipse/EclipseState/Tables/PlyshlogTable.hpp>
#include <opm/input/eclipse/EclipseState/Tables/PvtgTable.hpp>
#include <opm/input/eclipse/EclipseState/Tables/PvtoTable.hpp>
#include <opm/input/eclipse/EclipseState/Tables/Regdims.hpp>
#include <opm/input/eclipse/EclipseState/Tables/Rock2dTable.hpp>
#include <opm/input/eclipse/EclipseState/Tables/Rock2dtrTable.hpp>
#include <opm/input/eclipse/EclipseState/Tables/RocktabTable.hpp>
#include <opm/input/eclipse/EclipseState/Tables/SimpleTable.hpp>
#include <opm/input/eclipse/EclipseState/Tables/SkprpolyTable.hpp>
#include <opm/input/eclipse/EclipseState/Tables/SkprwatTable.hpp>
#include <opm/input/eclipse/EclipseState/Tables/Tabdims.hpp>
#include <opm/input/eclipse/EclipseState/Tables/TableColumn.hpp>
#include <opm/input/eclipse/EclipseState/Tables/TableContainer.hpp>
#include <opm/input/eclipse/EclipseState/Tables/TableManager.hpp>
#include <opm/input/eclipse/EclipseState/Tables/TableSchema.hpp>
#include <opm/input/eclipse/EclipseState/TracerConfig.hpp>
#include <opm/input/eclipse/Schedule/Action/ASTNode.hpp>
#include <opm/input/eclipse/Schedule/Action/ActionAST.hpp>
#include <opm/input/eclipse/Schedule/Action/ActionResult.hpp>
#include <opm/input/eclipse/Schedule/Action/ActionX.hpp>
#include <opm/input/eclipse/Schedule/Action/Actions.hpp>
#include <opm/input/eclipse/Schedule/Action/Condition.hpp>
#include <opm/input/eclipse/Schedule/Action/PyAction.hpp>
#include <opm/input/eclipse/Schedule/Action/State.hpp>
#include <opm/input/eclipse/Schedule/Events.hpp>
#include <opm/input/eclipse/Schedule/GasLiftOpt.hpp>
#include <opm/input/eclipse/Schedule/Group/GConSale.hpp>
#include <opm/input/eclipse/Schedule/Group/GConSump.hpp>
#include <opm/input/eclipse/Schedule/Group/Group.hpp>
#include <opm/input/eclipse/Schedule/Group/GroupEconProductionLimits.hpp>
#include <opm/input/eclipse/Schedule/Group/GuideRateConfig.hpp>
#include <opm/input/eclipse/Schedule/Group/GuideRateModel.hpp>
#include <opm/input/eclipse/Schedule/MSW/AICD.hpp>
#include <opm/input/eclipse/Schedule/MSW/SICD.hpp>
#include <opm/input/eclipse/Schedule/MSW/Valve.hpp>
#include <opm/input/eclipse/Schedule/MSW/WellSegments.hpp>
#include <opm/input/eclipse/Schedule/MSW/icd.hpp>
#include <opm/input/eclipse/Schedule/MessageLimits.hpp>
#include <opm/input/eclipse/Schedule/Network/Balance.hpp>
#include <opm/input/eclipse/Schedule/Network/ExtNetwork.hpp>
#include <opm/input/eclipse/Schedule/Network/Node.hpp>
#include <opm/input/eclipse/Schedule/OilVaporizationProperties.hpp>
#include <opm/input/eclipse/Schedule/ResCoup/ReservoirCouplingInfo.hpp>
#include <opm/input/eclipse/Schedule/RFTConfig.hpp>
#include <opm/input/eclipse/Schedule/RPTConfig.hpp>
#include <opm/input/eclipse/Schedule/RSTConfig.hpp>
#include <opm/input/eclipse/Schedule/Schedule.hpp>
#include <opm/input/eclipse/Schedule/ScheduleTypes.hpp>
#include <opm/input/eclipse/Schedule/SummaryState.hpp>
#include <opm/input/eclipse/Schedule/Tuning.hpp>
#include <opm/input/eclipse/Schedule/UDQ/UDQASTNode.hpp>
#include <opm/input/eclipse/Schedule/UDQ/UDQActive.hpp>
#include <opm/input/eclipse/Schedule/UDQ/UDQAssign.hpp>
#include <opm/input/eclipse/Schedule/UDQ/UDQConfig.hpp>
#include <opm/input/eclipse/Schedule/UDQ/UDQDefine.hpp>
#include <opm/input/eclipse/Schedule/UDQ/UDQFunction.hpp>
#include <opm/input/eclipse/Schedule/UDQ/UDQFunctionTable.hpp>
#include <opm/input/eclipse/Schedule/UDQ/UDQInput.hpp>
#include <opm/input/eclipse/Schedule/UDQ/UDQState.hpp>
#include <opm/input/eclipse/Schedule/VFPInjTable.hpp>
#include <opm/input/eclipse/Schedule/VFPProdTable.hpp>
#include <opm/input/eclipse/Schedule/Well/Connection.hpp>
#include <opm/input/eclipse/Schedule/Well/FilterCake.hpp>
#include <opm/input/eclipse/Schedule/Well/NameOrder.hpp>
#include <opm/input/eclipse/Schedule/Well/PAvg.hpp>
#include <opm/input/eclipse/Schedule/Well/WDFAC.hpp>
#include <opm/input/eclipse/Schedule/Well/WList.hpp>
#include <opm/input/eclipse/Schedule/Well/WListManager.hpp>
#include <opm/input/eclipse/Schedule/Well/WVFPDP.hpp>
#include <opm/input/eclipse/Schedule/Well/WVFPEXP.hpp>
#include <opm/input/eclipse/Schedule/Well/Well.hpp>
#include <opm/input/eclipse/Schedule/Well/WellBrineProperties.hpp>
#include <opm/input/eclipse/Schedule/Well/WellConnections.hpp>
#include <opm/input/eclipse/Schedule/Well/WellEconProductionLimits.hpp>
#include <opm/input/eclipse/Schedule/Well/WellFoamProperties.hpp>
#include <opm/input/eclipse/Schedule/Well/WellMICPProperties.hpp>
#include <opm/input/eclipse/Schedule/Well/WellPolymerProperties.hpp>
#include <opm/input/eclipse/Schedule/Well/WellTestConfig.hpp>
#include <opm/input/eclipse/Schedule/Well/WellTestState.hpp>
#include <opm/input/eclipse/Schedule/Well/WellTracerProperties.hpp>
#include <opm/input/eclipse/Schedule/WriteRestartFileEvents.hpp>
#include <opm/common/utility/Serializer.hpp>
#include <opm/common/utility/MemPacker.hpp>
#include <opm/common/utility/TimeService.hpp>
#include <opm/common/utility/OpmInputError.hpp>
#include <opm/input/eclipse/Deck/DeckKeyword.hpp>
#include <opm/input/eclipse/Deck/DeckRecord.hpp>
#include <opm/input/eclipse/EclipseState/Grid/EclipseGrid.hpp>
#include <opm/input/eclipse/EclipseState/Grid/FieldPropsManager.hpp>
#include <opm/input/eclipse/Parser/ErrorGuard.hpp>
#include <opm/input/eclipse/Parser/ParseContext.hpp>
#include <opm/input/eclipse/Parser/Parser.hpp>
#include <opm/input/eclipse/Python/Python.hpp>
#include <opm/input/eclipse/Schedule/Group/GuideRate.hpp>
#include <opm/input/eclipse/Schedule/ScheduleState.hpp>
#include <opm/input/eclipse/Schedule/Well/WellMatcher.hpp>
#include <opm/input/eclipse/Units/Dimension.hpp>
#include <opm/input/eclipse/Units/UnitSystem.hpp>
#include <iostream>

template <class T> void roundtrip(T& in, T& out) {
    Opm::Serialization::MemPacker packer;
    Opm::Serializer ser(packer);
    ser.pack(in);
    ser.unpack(out);
}

static const char* DECK = R"(
RUNSPEC
DIMENS
 3 3 3 /
OIL
WATER
NETWORK
 3 2 /
START
 1 JAN 2020 /
GRID
DX
 27*100 /
DY
 27*100 /
DZ
 27*10 /
TOPS
 9*2000 /
PORO
 27*0.3 /
PERMX
 27*100 /
PERMY
 27*100 /
PERMZ
 27*10 /
SUMMARY
RUNSUM
FOPR
SCHEDULE
WELSPECS
 'P1' 'G' 1 1 2005 OIL /
/
COMPDAT
 'P1' 1 1 1 1 OPEN 1* 1* 0.2 /
/
ACTIONX
 'A' 1 /
 FOPR > 1 /
/
COMPDAT
 'P1' 2 2 1 3 OPEN 1* 1* 0.2 /
/
ENDACTIO
TSTEP
 10 /
END
)";

int main() {
    int lost = 0;
    auto report = [&](const char* what, bool same) {
        std::cout << (same ? "kept  " : "LOST  ") << what << "\n";
        if (!same) ++lost;
    };
    auto deck = Opm::Parser{}.parseString(DECK);
    Opm::EclipseState es(deck);
    auto python = std::make_shared<Opm::Python>();
    Opm::Schedule sched(deck, es, python);
    Opm::SummaryConfig sc(deck, sched, es.fieldProps(), es.aquifer());

    {
        const auto& nd = es.runspec().networkDimensions();
        Opm::NetworkDims nd_in = nd, nd_out;
        roundtrip(nd_in, nd_out);
        report("NetworkDims::active() (type_)", nd_in.active() == nd_out.active());
    }
    {
        Opm::ScheduleStatic a, b;
        a.sumthin = 5.0; a.rptonly = true; a.slave_mode = true;
        a.oilVap = Opm::OilVaporizationProperties(2);
        roundtrip(a, b);
        report("ScheduleStatic::sumthin", a.sumthin == b.sumthin);
        report("ScheduleStatic::rptonly", a.rptonly == b.rptonly);
        report("ScheduleStatic::slave_mode", a.slave_mode == b.slave_mode);
        report("ScheduleStatic::oilVap", a.oilVap.has_value() == b.oilVap.has_value());
    }
    {
        Opm::Well::WellProductionProperties a, b;
        a.bhp_hist_limit_defaulted = false;
        roundtrip(a, b);
        report("WellProductionProperties::bhp_hist_limit_defaulted", a.bhp_hist_limit_defaulted == b.bhp_hist_limit_defaulted);
    }
    {
        Opm::SummaryConfig out;
        roundtrip(sc, out);
        report("SummaryConfig::createRunSummary() (runSummaryConfig)", sc.createRunSummary() == out.createRunSummary());
    }
    {
        Opm::Schedule out(python);
        roundtrip(sched, out);
        std::cout << "      possibleFutureConnections in=" << sched.getPossibleFutureConnections().size()
                  << " out=" << out.getPossibleFutureConnections().size() << "\n";
        report("Schedule::getPossibleFutureConnections()", sched.getPossibleFutureConnections() == out.getPossibleFutureConnections());
    }
    return lost ? 1 : 0;
}
