"""Intraprocedural use classification of a *mutable handle* (a reference / pointer / smart pointer through
which storage shared between schedule snapshots could be written).

classify(fn, root) follows the value of expression node `root` upwards through the AST of function
`fn` and returns a list of findings (kind, node, why):
   kind = 'safe'    the value is copied, read through const members, bound to const
          'escape'  a non-const member is invoked on it, it is assigned through, bound to a non-const
                    reference/pointer that is itself used mutably, passed to a non-const parameter or returned mutably
          'unknown' a construct the classifier does not understand (reported, never silently accepted)
"""
import re

from .tree import walk, children, show, strip

PTR_LIKE = re.compile(r"(shared_ptr|unique_ptr|reference_wrapper|_Sp_|__shared_ptr)")


def parent_map(fn):
    par = {}
    roots = []
    if fn.get("body"):
        roots.append(fn["body"])
    for ci in fn.get("inits", []) or []:
        if isinstance(ci, dict) and isinstance(ci.get("init"), dict):
            roots.append(ci["init"])
    for r in roots:
        for n in walk(r):
            for c in children(n):
                par[id(c)] = n
            # vars of Decl / ForRange are plain dicts: map their init to the owning statement
            if n["k"] == "Decl":
                for v in n["vars"]:
                    if isinstance(v.get("init"), dict):
                        par[id(v["init"])] = n
            if n["k"] == "Lambda":
                for ci in n.get("capinits", []) or []:
                    if isinstance(ci, dict):
                        par[id(ci)] = n
    return par


def is_mut_ref_type(t):
    """Type string of a parameter/variable that can be written through."""
    if t is None:
        return False
    t = t.strip()
    if t.endswith("&&"):
        return False       # moved-from temporaries: ownership transfer, not aliasing of shared storage
    if t.endswith("&"):
        core = t[:-1].strip()
        return not (core.startswith("const ") or core.endswith(" const"))
    if t.endswith("*"):
        core = t[:-1].strip()
        return not (core.startswith("const ") or core.endswith(" const"))
    return False


def pointee_mutable_value(t):
    """A by-value smart pointer / reference_wrapper to non-const T still aliases T."""
    if t is None:
        return False
    m = re.search(r"(shared_ptr|unique_ptr|reference_wrapper)<\s*(const\s+)?", t)
    if m:
        return m.group(2) is None
    return False


class Classifier:
    def __init__(self, fn):
        self.fn = fn
        self.par = parent_map(fn)
        self.seen_vars = set()
        self.out = []

    def add(self, kind, node, why):
        self.out.append((kind, node, why))

    def refs_to(self, name, dl):
        res = []
        roots = [self.fn.get("body")] + [ci.get("init") for ci in self.fn.get("inits", []) or [] if isinstance(ci, dict)]
        for r in roots:
            if not r:
                continue
            for n in walk(r):
                if n["k"] == "Ref" and n["n"] == name and (dl is None or n.get("dl") in (None, dl)):
                    res.append(n)
        return res

    def alias_var(self, v, origin, is_ptr=False):
        key = (v["n"], v.get("l"))
        if key in self.seen_vars:
            return
        self.seen_vars.add(key)
        for r in self.refs_to(v["n"], v.get("l")):
            self.climb(r, "alias `%s`" % v["n"], is_ptr=is_ptr)

    def climb(self, n, via="", is_ptr=False):
        par = self.par
        cur = n
        while True:
            p = par.get(id(cur))
            if p is None:
                self.add("safe", cur, "value not used further")
                return
            k = p["k"]
            if k == "Cast":
                if "const" in (p.get("t") or "") and p.get("ck") != "const":
                    self.add("safe", p, "cast to const")
                    return
                cur = p
                continue
            if k in ("DefArg", "DefInit"):
                cur = p
                continue
            if k == "Mem" and p.get("b") is cur:
                cur = p      # .second / ->field : still inside the shared object
                continue
            if k in ("DMem", "UMem") and p.get("b") is cur:
                cur = p
                continue
            if k == "Un" and p["op"] in ("*", "&"):
                is_ptr = (p["op"] == "&")
                cur = p
                continue
            if k == "OpCall" and p.get("a") and p["a"][0] is cur and p["op"] in ("->", "*"):
                cur = p
                continue
            if k == "OpCall" and p.get("a") and p["a"][0] is cur and p["op"] == "[]":
                # container element of the shared object
                if p.get("const"):
                    self.add("safe", p, "const subscript")
                    return
                cur = p
                continue
            if k == "Idx" and p["c"][0] is cur:
                cur = p
                continue
            if k == "MCall" and p.get("obj") is cur:
                m = p.get("m")
                cls = p.get("cls") or ""
                if m in ("get", "operator->", "operator*") and PTR_LIKE.search(cls) or (cls.startswith("std::") and m in ("get",) and PTR_LIKE.search(cls)):
                    cur = p
                    continue
                if m is None:
                    self.add("unknown", p, "unresolved member call on a mutable handle")
                    return
                if p.get("const"):
                    rt = p.get("t") or ""
                    # a const accessor returning a smart pointer / non-const reference to a sub-object keeps aliasing
                    if is_mut_ref_type(rt) or pointee_mutable_value(rt):
                        cur = p
                        continue
                    self.add("safe", p, "const member %s" % m)
                    return
                if cls.startswith("std::") and m in ("begin", "end", "find", "at", "back", "front", "second", "first"):
                    cur = p
                    continue
                self.add("escape", p, "non-const member %s::%s invoked through %s" % (cls, m, via or "the handle"))
                return
            if k in ("Call", "MCall", "OpCall", "Ctor"):
                args = p.get("a", [])
                idx = None
                for i, a in enumerate(args):
                    if a is cur:
                        idx = i
                if idx is None:
                    if p.get("callee") is cur:
                        self.add("safe", p, "called")
                        return
                    self.add("unknown", p, "handle appears in a call in an unrecognised position")
                    return
                if k == "Ctor" and p.get("copy"):
                    # copying T out of the shared object: by value -> independent; but copying a smart pointer keeps aliasing
                    if pointee_mutable_value(p.get("t")):
                        cur = p
                        continue
                    self.add("safe", p, "copied")
                    return
                pt = p.get("pt")
                off = 0
                if k == "OpCall" and p.get("cls"):
                    off = 1      # member operator: a[0] is the object
                    if idx == 0:
                        if p.get("const"):
                            self.add("safe", p, "const operator")
                        else:
                            if p["op"] in ("=", "+=", "-=", "*=", "/="):
                                self.add("escape", p, "assigned through (%s)" % p["op"])
                            else:
                                self.add("escape", p, "non-const operator %s" % p["op"])
                        return
                fnname = p.get("fn") or ""
                if fnname.startswith("fmt::"):
                    self.add("safe", p, "formatted")
                    return
                lambdas = [a for a in args if isinstance(a, dict) and strip(a).get("k") == "Lambda"]
                if fnname.startswith("std::") and lambdas and fnname.split("::")[-1] in (
                        "any_of", "all_of", "none_of", "find_if", "find_if_not", "count_if", "for_each", "accumulate", "transform", "copy_if"):
                    # the algorithm hands each element to the lambda: judge by the lambda's parameters
                    okl = True
                    for lam in lambdas:
                        for lp in strip(lam).get("params", []):
                            if lp.get("ref") and not lp.get("cref"):
                                okl = False
                            if lp.get("ptr") and not lp.get("cptr"):
                                okl = False
                    if okl:
                        self.add("safe", p, "elements visited by const reference / value in %s" % fnname)
                    else:
                        self.add("escape", p, "elements handed to a lambda by non-const reference in %s" % fnname)
                    return
                if fnname.endswith("std::move"):
                    # std::move of the pointer re-seats this object's own pointer; std::move of the (non-const) pointee
                    # hands the shared object's content to whoever receives the rvalue: every other holder is left
                    # with a moved-from object
                    mt = ((p.get("targs") or p.get("pt") or [""])[0] or "").strip()
                    core_t = mt.rstrip("&").strip()
                    if mt and not PTR_LIKE.search(mt) and not (core_t.startswith("const ") or core_t.endswith(" const")):
                        self.add("escape", p, "moved from (std::move of `%s`) through %s" % (core_t, via or "the handle"))
                        return
                    cur = p
                    continue
                if fnname.endswith(("std::forward", "std::ref", "std::addressof")):
                    cur = p
                    continue
                if fnname.endswith(("std::cref",)):
                    self.add("safe", p, "cref")
                    return
                if fnname.split("::")[-1] in ("make_shared", "make_unique"):
                    self.add("safe", p, "copied into fresh storage")
                    return
                if pt and 0 <= idx - off < len(pt):
                    t = pt[idx - off]
                    if is_ptr and not re.match(r"^const\s+[^*]*\*", t.strip()) and "const_pointer" not in t:
                        # the address of the shared object is handed on / stored: whoever holds it can write
                        self.add("escape", p, "address of the object passed to `%s` of %s" % (t, fnname))
                    elif is_mut_ref_type(t):
                        self.add("escape", p, "passed to non-const parameter `%s` of %s" % (t, fnname))
                    elif pointee_mutable_value(t) and not t.strip().startswith("const"):
                        self.add("escape", p, "smart pointer passed on to %s" % fnname)
                    else:
                        self.add("safe", p, "passed by value / const to %s" % fnname)
                    return
                if fnname == "" and k == "Call":
                    self.add("unknown", p, "passed to an unresolved call %s" % show(p)[:60])
                    return
                self.add("safe", p, "passed to %s (no mutable parameter)" % fnname)
                return
            if k == "Decl":
                for v in p["vars"]:
                    if v.get("init") is cur or strip(v.get("init")) is cur:
                        t = v.get("t") or ""
                        if v.get("cref") or (v.get("ptr") and v.get("cptr")):
                            self.add("safe", p, "bound to const")
                            return
                        if v.get("ref") or v.get("ptr") or pointee_mutable_value(t) or "iterator" in t and "const_iterator" not in t:
                            self.alias_var(v, p, is_ptr=bool(v.get("ptr")))
                            # the binding itself is neutral; uses decide
                            return
                        if t in ("auto", "auto &&") or t.endswith("&&"):
                            self.alias_var(v, p)
                            return
                        self.add("safe", p, "copied into local value")
                        return
                self.add("unknown", p, "declaration")
                return
            if k == "ForRange" and p.get("range") is cur:
                v = p["var"]
                t = v.get("t") or ""
                if v.get("cref") and not PTR_LIKE.search(t) and "pair" not in t:
                    self.add("safe", p, "iterated by const reference")
                    return
                if not v.get("ref") and not v.get("ptr") and not PTR_LIKE.search(t) and "pair" not in t and t not in ("auto &&",):
                    self.add("safe", p, "iterated by value (each element copied)")
                    return
                self.alias_var(v, p)
                return
            if k == "Bin" and p.get("asg"):
                if p["c"][0] is cur:
                    self.add("escape", p, "assigned through (%s)" % p["op"])
                else:
                    self.add("safe", p, "read (right-hand side)")
                return
            if k == "Un" and p["op"] in ("++", "--", "post++", "post--"):
                self.add("escape", p, "incremented in place")
                return
            if k == "Return":
                rt = self.fn.get("ret") or ""
                if is_mut_ref_type(rt) or (pointee_mutable_value(rt) and not rt.strip().startswith("const")):
                    self.add("escape", p, "returned as `%s`" % rt)
                else:
                    self.add("safe", p, "returned by value/const")
                return
            if k in ("Bin", "Un", "Cond", "If", "While", "For", "Switch", "Block", "Do"):
                self.add("safe", p, "read")
                return
            if k == "Lambda":
                self.add("unknown", p, "captured by a lambda")
                return
            if k in ("InitList",):
                cur = p
                continue
            self.add("unknown", p, "unrecognised context %s" % k)
            return


def classify(fn, root, via=""):
    c = Classifier(fn)
    c.climb(root, via)
    return c.out
