"""Raw stream transfers: stream.read(ptr, n) / stream.write(ptr, n) where ptr is the address of a scalar, the data() of
a vector or the first character of a string the function itself sized.  The byte count must be the size of the object
the pointer designates:
    (char*)&x, n          n == sizeof(type of x)            (sizeof(x), a literal or a compile-time constant)
    (char*)v.data(), n    n == v.size() * sizeof(element)   (same v; the element size by value)
    &s[0] / s.data(), n   n == the length s was constructed with (std::string s(n, c)), same literal or expression
A larger count reads or writes past the object; a smaller one leaves part of it unset.  Transfers whose object size is
not visible in the function (a string or buffer parameter) are counted as undecided.

analyse(fn) -> [(line, text, verdict, detail)] with verdict in ok / bad / undecided"""
import re

from verif.tree import decast, show, strip, walk

SIZES = {"char": 1, "bool": 1, "signed char": 1, "unsigned char": 1, "short": 2, "unsigned short": 2, "int": 4, "unsigned int": 4, "unsigned": 4, "float": 4,
         "double": 8, "long": 8, "unsigned long": 8, "long long": 8, "unsigned long long": 8, "std::int64_t": 8, "int64_t": 8, "std::uint64_t": 8, "uint64_t": 8,
         "std::int32_t": 4, "int32_t": 4, "std::uint32_t": 4, "uint32_t": 4, "std::size_t": 8, "size_t": 8}


def _tsize(t):
    t = (t or "").replace("const ", "").replace("&", "").strip()
    return SIZES.get(t)


def _value(e):
    """compile-time value of a count expression, or None"""
    e = decast(e)
    if e.get("k") == "Int":
        return int(e["v"])
    if e.get("k") == "SizeOf" and "ev" in e:
        return int(e["ev"])
    if e.get("k") == "Ref" and "ev" in e:
        return int(e["ev"])
    return None


def analyse(fn):
    out = []
    locals_ = {}
    for n in walk(fn["body"]):
        if n.get("k") == "Decl":
            for v in n["vars"]:
                locals_[(v["n"], v.get("l"))] = v
    for n in walk(fn["body"]):
        if n.get("k") != "MCall" or n.get("m") not in ("read", "write") or len(n.get("a") or []) != 2:
            continue
        if not re.search(r"basic_[io]?f?stream|basic_istream|basic_ostream|fstream", (n.get("cls") or "") + (n.get("fn") or "")):
            continue
        p, cnt = n["a"]
        text = show(n)[:110]
        p0 = strip(p)
        inner = decast(p0)
        # (char*)&x
        if inner.get("k") == "Un" and inner.get("op") == "&":
            tgt = decast(inner["c"][0])
            if tgt.get("k") == "Ref":
                sz = _tsize(tgt.get("t"))
                val = _value(cnt)
                if sz is None or val is None:
                    out.append((n["l"], text, "undecided", "object or count size not known"))
                elif val == sz:
                    out.append((n["l"], text, "ok", "scalar %s: %d bytes" % (tgt.get("t"), sz)))
                else:
                    out.append((n["l"], text, "bad", "`%s` is a %s of %d bytes but %d bytes are transferred" % (tgt.get("n"), tgt.get("t"), sz, val)))
                continue
            if tgt.get("k") == "OpCall" and tgt.get("op") == "[]" and (tgt.get("cls") or "") == "std::basic_string":
                s_ = decast(tgt["a"][0])
                idx = decast(tgt["a"][1])
                dv = locals_.get((s_.get("n"), s_.get("dl"))) if s_.get("k") == "Ref" else None
                if dv is None or not isinstance(dv.get("init"), dict) or idx.get("k") != "Int" or int(idx["v"]) != 0:
                    out.append((n["l"], text, "undecided", "string sized elsewhere"))
                    continue
                it = strip(dv["init"])
                args = [a for a in (it.get("a") or []) if isinstance(a, dict) and a.get("k") != "DefArg"]
                if it.get("k") == "Ctor" and len(args) == 2:
                    want, got = show(decast(args[0])), show(decast(cnt))
                    if want == got:
                        out.append((n["l"], text, "ok", "string of %s characters" % want))
                    elif re.fullmatch(r"\d+", want) and re.fullmatch(r"\d+", got):
                        out.append((n["l"], text, "bad", "`%s` was constructed with %s characters but %s bytes are transferred" % (s_.get("n"), want, got)))
                    else:
                        out.append((n["l"], text, "undecided", "length %s against count %s" % (want, got)))
                else:
                    out.append((n["l"], text, "undecided", "string not constructed with a length"))
                continue
        # (char*)v.data()
        if inner.get("k") == "MCall" and inner.get("m") == "data" and (inner.get("cls") or "") == "std::vector":
            v_ = show(strip(inner["obj"]))
            vt = (strip(inner["obj"]).get("t") or "")
            m_ = re.search(r"vector<([^,<>]+)", vt)
            esz = _tsize(m_.group(1)) if m_ else None
            c_ = decast(cnt)
            ok = None
            if c_.get("k") == "Bin" and c_.get("op") == "*":
                a, b = decast(c_["c"][0]), decast(c_["c"][1])
                for x, y in ((a, b), (b, a)):
                    if x.get("k") == "MCall" and x.get("m") == "size" and show(strip(x["obj"])) == v_ and _value(y) is not None and esz is not None:
                        ok = (_value(y) == esz, "vector<%s>: %d-byte elements, count uses %d" % (m_.group(1), esz, _value(y)))
            if ok is None:
                out.append((n["l"], text, "undecided", "count is not size() * sizeof(element) of the same vector"))
            else:
                out.append((n["l"], text, "ok" if ok[0] else "bad", ok[1]))
            continue
        if inner.get("k") == "Str":
            val = _value(cnt)
            ln = len(inner.get("v") or "")
            if val is None:
                out.append((n["l"], text, "undecided", "count of a literal not constant"))
            else:
                out.append((n["l"], text, "ok" if val == ln else "bad", "literal of %d characters, %d bytes transferred" % (ln, val)))
            continue
        out.append((n["l"], text, "undecided", "pointer of another shape"))
    return out


def run(chk, prefix, floor):
    from verif import core
    r = chk.rule(prefix + ".rawio", "opm/io/eclipse: a raw stream transfer read(ptr, n) / write(ptr, n) whose object is visible in the function moves exactly the bytes of that object: sizeof of the scalar behind (char*)&x, size() * element size behind (char*)v.data(), the constructed length behind &s[0], the length of a string literal.  A larger count runs past the object (heap or stack overwritten on read), a smaller one leaves part of the record unset; transfers into buffers sized by the caller are undecided and not claimed", floor=floor)
    units = [u for u in core.library_units() if "opm/io/eclipse/" in u]
    fx = chk.facts(units)
    for f in fx.fns:
        if not f.get("body") or "/opm/io/eclipse/" not in f["file"]:
            continue
        for line, text, verdict, detail in analyse(f):
            if verdict == "undecided":
                continue
            key = "%s@%d" % (f["q"].split("::")[-1], line)
            chk.instance(r, key, sample=dict(function=f["q"], transfer=text, basis=detail))
            if verdict == "bad":
                chk.violation(r, key, "%s: %s - %s" % (f["q"], text, detail), f["file"], line)
