"""Pattern versus expanded name.  A keyword handler obtains the wells (groups) a record addresses as
    names = handlerContext.wellNames(pattern [, ...])      (also groupNames / wells / WellMatcher look-ups)
and then works on each name of `names` in a loop.  Inside that loop the per-entity operations take the loop variable;
the pattern itself ('P*', a well list '*LIST', the '?' of an ACTIONX) names no entity, so handing it to an operation in
the loop body addresses nothing (erase of an unknown key, a look-up that throws).  Messages may mention the pattern.

analyse(fn) -> [(loop line, pattern var, names var, [(line, call text)] uses of the pattern inside the loop)]"""
import re

from verif.tree import decast, show, strip, walk
from verif.cow import parent_map

MESSAGE = re.compile(r"(fmt::format|OpmLog|invalidNamePattern|Error|Exception|std::string|operator\+|what|location|warning|info|error|debug)")


def analyse(fn):
    body = fn.get("body")
    if not body:
        return []
    expansions = {}       # names var (name, dl) -> pattern var name
    for n in walk(body):
        if n.get("k") == "Decl":
            for v in n["vars"]:
                it = v.get("init")
                if not isinstance(it, dict):
                    continue
                for c in walk(it):
                    if c.get("k") == "MCall" and c.get("m") in ("wellNames", "groupNames") and c.get("a"):
                        a0 = decast(c["a"][0])
                        if a0.get("k") == "Ref" and a0.get("d") in ("Var", "Parm") and "string" in (a0.get("t") or ""):
                            expansions[(v["n"], v.get("l"))] = (a0["n"], a0.get("dl"))
    if not expansions:
        return []
    par = parent_map(fn)
    out = []
    for lp in walk(body):
        if lp.get("k") != "ForRange":
            continue
        r = decast(lp["range"])
        if r.get("k") != "Ref" or (r.get("n"), r.get("dl")) not in expansions:
            continue
        pat, pdl = expansions[(r["n"], r["dl"])]
        uses = []
        for x in walk(lp["body"]):
            if x.get("k") == "Ref" and x.get("n") == pat and x.get("dl") == pdl:
                # the innermost enclosing call
                cur = x
                call = None
                msg = False
                while id(cur) in par and par[id(cur)] is not lp:
                    cur = par[id(cur)]
                    if cur.get("k") in ("Call", "MCall", "Ctor", "Throw", "OpCall"):
                        t = (cur.get("fn") or "") + " " + (cur.get("m") or "") + " " + (cur.get("t") or "")
                        if call is None and cur.get("k") != "OpCall":
                            call = cur
                        if MESSAGE.search(t) or cur.get("k") == "Throw":
                            msg = True
                if not msg:
                    uses.append((x.get("l"), show(call)[:100] if call is not None else show(x)))
        out.append((lp.get("l"), pat, r["n"], uses))
    return out


def run(chk, prefix, floor):
    from verif import core
    r = chk.rule(prefix + ".patname", "keyword handlers of opm/input/eclipse/Schedule that expand a well / group name pattern (names = handlerContext.wellNames(pattern) / groupNames(pattern)) and loop over the expanded names: inside that loop the pattern variable is used in messages only - every operation on the schedule state takes the loop variable (the expanded name).  The pattern ('P*', a well list, the '?' that an ACTIONX replaces by its matching wells) names no well: an operation keyed by it silently does nothing when the action is applied, while the inlined keyword names the wells one by one", floor=floor)
    fx = chk.facts([u for u in core.library_units() if "opm/input/eclipse/Schedule/" in u])
    for f in fx.fns:
        if not f.get("body") or "/opm/input/eclipse/Schedule/" not in f["file"]:
            continue
        for l, pat, names, uses in analyse(f):
            key = "%s@%d" % (f["q"], l)
            chk.instance(r, key, sample=dict(function=f["q"], pattern=pat, names=names, pattern_uses_in_loop=len(uses)))
            for ul, text in uses:
                chk.violation(r, key, "%s: inside the loop over `%s` the pattern `%s` itself is handed to `%s`; the operation must take the expanded name of the iteration" % (f["q"], names, pat, text), f["file"], ul)
