"""Decision table of a small dispatch function (no execution: the conditions are opaque symbols).

A dispatch function is a structured list of `if (cond) return e; ... return e;` / `throw` statements, possibly with a
few locals that only abbreviate expressions.  `table(fn)` enumerates the truth assignments of its atomic conditions and
gives, for each, the outcome text: 'throw', the returned expression with the abbreviating locals substituted, or - for a
function declared boolean - True / False.  Two spellings of the same table (if/else against early return, `a != b`
against `!(a == b)`, `x >= 2` against `x > 1`, a temporary reference against the expression itself) give the same table.

Anything that is not understood (a loop, an assignment to something that is not a local, an unknown statement) raises
NotATable, which the caller turns into a violation or an analysis-broken verdict: the helper never guesses."""
import itertools
import re

from verif.tree import show, stmt_list, strip


class NotATable(Exception):
    pass


class _Need(Exception):
    def __init__(self, atom):
        self.atom = atom


QUALS = ("Opm::Action::(anonymous namespace)::", "(anonymous namespace)::", "Opm::Action::", "Opm::")


def norm(text, quals=QUALS):
    for q in quals:
        text = text.replace(q, "")
    text = text.replace(".operator basic_string_view()", "")
    text = re.sub(r"std::basic_string<char>::npos|std::string::npos", "npos", text)
    return text


def _subst(text, env):
    # longest names first; whole identifiers that are not member names (not preceded by '.' or '::')
    for _ in range(4):
        before = text
        for nm in sorted(env, key=len, reverse=True):
            text = re.sub(r"(?<![\w.:])%s\b" % re.escape(nm), lambda m_: env[nm], text)
        if text == before:
            break
    return text


def _unparen(t):
    while t.startswith("(") and t.endswith(")"):
        depth = 0
        for i, ch in enumerate(t):
            depth += ch == "("
            depth -= ch == ")"
            if depth == 0 and i < len(t) - 1:
                return t
        t = t[1:-1]
    return t


def atom_text(e, env):
    """(text, negated): canonical spelling of an atomic condition"""
    e = strip(e)
    neg = False
    if e.get("k") in ("Bin", "OpCall") and e.get("op") in ("==", "!=", "<", ">", "<=", ">="):
        a, b = (e.get("c") or e.get("a"))[:2]
        op = e["op"]
        ta, tb = _unparen(norm(_subst(show(strip(a)), env))), _unparen(norm(_subst(show(strip(b)), env)))
        if re.fullmatch(r"-?\d+", ta) and not re.fullmatch(r"-?\d+", tb):
            ta, tb = tb, ta
            op = {"<": ">", ">": "<", "<=": ">=", ">=": "<=", "==": "==", "!=": "!="}[op]
        if op == "!=":
            op, neg = "==", True
        if op in (">", ">=") and not re.fullmatch(r"-?\d+", tb) and not re.fullmatch(r"-?\d+", ta):
            # between two expressions: one spelling, the `<` one
            ta, tb, a, b = tb, ta, b, a
            op = {">": "<", ">=": "<="}[op]
        lit, oth = (strip(b), strip(a)) if re.fullmatch(r"-?\d+", _unparen(norm(_subst(show(strip(b)), env)))) else (strip(a), strip(b))
        integral = lit.get("k") == "Int" and re.search(r"size_t|size_type|\bint\b|\blong\b|unsigned|\bshort\b", oth.get("t") or "") is not None and not re.search(r"double|float", oth.get("t") or "")
        if re.fullmatch(r"-?\d+", tb) and integral:
            # integer comparison: x >= k is x > k-1, x <= k is x < k+1
            if op == ">=":
                op, tb = ">", str(int(tb) - 1)
            elif op == "<=":
                op, tb = "<", str(int(tb) + 1)
        return "%s %s %s" % (ta, op, tb), neg
    return _unparen(norm(_subst(show(e), env))), neg


def bool_term(e, env, val):
    e = strip(e)
    k = e.get("k")
    if k == "Bin" and e.get("op") == "||":
        return bool_term(e["c"][0], env, val) or bool_term(e["c"][1], env, val)
    if k == "Bin" and e.get("op") == "&&":
        return bool_term(e["c"][0], env, val) and bool_term(e["c"][1], env, val)
    if k == "Un" and e.get("op") == "!":
        return not bool_term(e["c"][0], env, val)
    if k == "Bool":
        return bool(e["v"])
    t, neg = atom_text(e, env)
    if t not in val:
        raise _Need(t)
    return val[t] != neg


def _expr(e, env, val, boolean):
    e0 = strip(e)
    if e0.get("k") == "Cond":
        c, a, b = e0["c"]
        return _expr(a if bool_term(c, env, val) else b, env, val, boolean)
    if boolean:
        return bool_term(e0, env, val)
    return _unparen(norm(_subst(show(e0), env)))


def _run(stmts, env, val, boolean, opaque, ignore=None):
    for s in stmts:
        k = s["k"]
        if ignore is not None and ignore(s):
            continue
        if k == "Decl":
            for v in s["vars"]:
                if v["n"] in opaque:
                    continue
                if isinstance(v.get("init"), dict):
                    env[v["n"]] = _expr(v["init"], env, val, False)
                else:
                    env[v["n"]] = "<uninit>"
        elif k == "Bin" and s.get("asg") and s.get("op") == "=" and strip(s["c"][0]).get("k") == "Ref" and strip(s["c"][0]).get("d") == "Var":
            env[strip(s["c"][0])["n"]] = _expr(s["c"][1], env, val, False)
        elif k == "OpCall" and s.get("op") == "=" and len(s.get("a") or []) == 2 and strip(s["a"][0]).get("k") == "Ref" and strip(s["a"][0]).get("d") == "Var":
            env[strip(s["a"][0])["n"]] = _expr(s["a"][1], env, val, False)
        elif k == "If":
            if s.get("condvar"):
                raise NotATable("condition variable at line %s" % s.get("l"))
            if bool_term(s["cond"], env, val):
                r = _run(stmt_list(s["then"]), env, val, boolean, opaque, ignore)
            elif s.get("else") is not None:
                r = _run(stmt_list(s["else"]), env, val, boolean, opaque, ignore)
            else:
                r = None
            if r is not None:
                return r
        elif k == "Block":
            r = _run(stmt_list(s), env, val, boolean, opaque, ignore)
            if r is not None:
                return r
        elif k == "Return":
            if s.get("e") is None:
                return "return"
            return _expr(s["e"], env, val, boolean)
        elif k == "Throw":
            return "throw"
        else:
            raise NotATable("statement %s at line %s: %s" % (k, s.get("l"), show(s)[:80]))
    return None


def table(fn, boolean=False, opaque=(), ignore=None):
    from verif import tree
    old = tree.LAMBDA_FULL
    tree.LAMBDA_FULL = True
    try:
        return _table(fn, boolean, opaque, ignore)
    finally:
        tree.LAMBDA_FULL = old


def _table(fn, boolean=False, opaque=(), ignore=None):
    """(atoms, {valuation tuple: outcome}) with the atoms sorted; a valuation lists the truth values in atom order."""
    atoms = []
    while True:
        need = None
        out = {}
        for bits in itertools.product((True, False), repeat=len(atoms)):
            val = dict(zip(atoms, bits))
            try:
                out[bits] = _run(stmt_list(fn["body"]), {}, val, boolean, set(opaque), ignore)
            except _Need as n_:
                need = n_.atom
                break
        if need is None:
            break
        atoms.append(need)
        if len(atoms) > 8:
            raise NotATable("more than 8 atomic conditions")
    order = sorted(range(len(atoms)), key=lambda i: atoms[i])
    s_atoms = [atoms[i] for i in order]
    return s_atoms, {tuple(bits[i] for i in order): o for bits, o in out.items()}


def same_table(got, want_atoms, want_fn):
    """Compare a table with the expected one: `want_fn(valuation dict) -> outcome` over `want_atoms`.  Returns a list of
    differences (empty when the tables agree).  An atom of the code that the expectation does not know is a difference."""
    atoms, tab = got
    diffs = []
    extra = [a for a in atoms if a not in want_atoms]
    if extra:
        return ["condition(s) %s are not part of the decision" % extra]
    for bits in itertools.product((True, False), repeat=len(want_atoms)):
        val = dict(zip(want_atoms, bits))
        key = tuple(val[a] for a in atoms)
        g, w = tab[key], want_fn(val)
        if w is Ellipsis:
            continue
        ok = g in w if isinstance(w, (list, tuple, set)) else g == w
        if not ok:
            diffs.append("when %s: %s (expected %s)" % (", ".join("%s%s" % ("" if val[a] else "NOT ", a) for a in want_atoms), g, w))
    return diffs
