"""Utilities over the compact trees emitted by opmfacts."""
import re

CHILD_KEYS = ("c", "a", "b", "obj", "callee", "init", "cond", "then", "else", "inc", "body", "range", "e", "v", "sub",
              "capinits", "handlers", "vars", "params", "var", "condvar", "inits")


def children(n):
    """Direct child nodes (dicts with 'k'), in source order as far as the keys allow."""
    if not isinstance(n, dict):
        return
    for key in ("init", "condvar", "cond", "obj", "callee", "b", "c", "a", "v", "e", "range", "var", "vars", "then", "else",
                "inc", "body", "sub", "capinits", "handlers", "params", "inits"):
        x = n.get(key)
        if x is None:
            continue
        if isinstance(x, dict):
            if "k" in x:
                yield x
            else:
                # varDecl-like / handler objects: descend into their init/body
                for kk in ("init", "body"):
                    y = x.get(kk)
                    if isinstance(y, dict):
                        yield y
        elif isinstance(x, list):
            for y in x:
                if isinstance(y, dict):
                    if "k" in y:
                        yield y
                    else:
                        for kk in ("init", "body"):
                            z = y.get(kk)
                            if isinstance(z, dict):
                                yield z


def walk(n, skip_lambda=False):
    """Pre-order walk of every node below (and including) n."""
    stack = [n]
    while stack:
        x = stack.pop()
        if not isinstance(x, dict):
            continue
        if "k" in x:
            yield x
            if skip_lambda and x["k"] == "Lambda" and x is not n:
                continue
        cs = list(children(x)) if "k" in x else [v for kk in ("init", "body") for v in [x.get(kk)] if isinstance(v, dict)]
        stack.extend(reversed(cs))


def walk_fn(fn):
    """Walk body and constructor initialisers of a function entity."""
    for ci in fn.get("inits", []) or []:
        if isinstance(ci, dict) and isinstance(ci.get("init"), dict):
            yield from walk(ci["init"])
    if fn.get("body"):
        yield from walk(fn["body"])


def find(n, pred):
    return [x for x in walk(n) if pred(x)]


def calls(n, name=None):
    """All call-like nodes (Call, MCall, OpCall, Ctor) under n, optionally filtered on callee qualified name suffix."""
    out = []
    for x in walk(n):
        if x["k"] in ("Call", "MCall", "OpCall", "Ctor"):
            if name is None or (x.get("fn") or "").endswith(name):
                out.append(x)
    return out


def strip(n):
    """Skip casts that do not change meaning for structural comparisons."""
    while isinstance(n, dict) and n.get("k") == "Cast" and n.get("c"):
        n = n["c"][0]
    return n


def decast(n):
    """Copy of the tree with every explicit cast removed (for comparisons that should ignore integer widening)."""
    if isinstance(n, list):
        return [decast(x) for x in n]
    if not isinstance(n, dict):
        return n
    if n.get("k") == "Cast" and n.get("c"):
        return decast(n["c"][0])
    return {k: decast(v) if isinstance(v, (dict, list)) else v for k, v in n.items()}


LAMBDA_FULL = False


def show(n, depth=0):
    """Canonical one-line rendering of an expression/statement tree (independent of layout,
    parentheses and line numbers).  Used both for AST equality and for reports."""
    if n is None:
        return "_"
    if isinstance(n, list):
        return ", ".join(show(x) for x in n)
    k = n.get("k")
    if k == "Ref":
        return n.get("q") or n["n"]
    if k == "Mem":
        b = n.get("b")
        if b is None or (b.get("k") == "This"):
            return "this." + n["n"]
        return "%s.%s" % (show(b), n["n"])
    if k == "DMem":
        b = n.get("b")
        if n.get("qual") and (b is None or b.get("k") == "This"):
            return n["qual"] + n["n"]
        if b is None or b.get("k") == "This":
            return "this." + n["n"]
        return "%s.%s" % (show(b), n["n"])
    if k == "UMem":
        b = n.get("b")
        if b is None or b.get("k") == "This":
            return "this." + n["n"]
        return "%s.%s" % (show(b), n["n"])
    if k in ("ULookup", "DRef"):
        return (n.get("qual") or "") + n["n"]
    if k == "This":
        return "this"
    if k == "Int":
        return str(n["v"])
    if k == "Flt":
        # a floating literal is not an integer literal (1/x against 1.0/x): always with a decimal point or exponent
        v = str(n["v"])
        return v if any(c in v for c in ".eEn") else v + ".0"
    if k == "Str":
        return '"%s"' % n["v"]
    if k == "Chr":
        return "'%s'" % chr(n["v"]) if 32 <= n["v"] < 127 else "'\\x%x'" % n["v"]
    if k == "Bool":
        return "true" if n["v"] else "false"
    if k == "Null":
        return "nullptr"
    if k == "Bin":
        return "(%s %s %s)" % (show(n["c"][0]), n["op"], show(n["c"][1]))
    if k == "Un":
        op = n["op"]
        if op.startswith("post"):
            return "(%s%s)" % (show(n["c"][0]), op[4:])
        return "(%s%s)" % (op, show(n["c"][0]))
    if k == "Cond":
        return "(%s ? %s : %s)" % tuple(show(x) for x in n["c"])
    if k == "Idx":
        return "%s[%s]" % (show(n["c"][0]), show(n["c"][1]))
    if k == "Call":
        f = n.get("fn") or show(n.get("callee"))
        return "%s(%s)" % (f, show(n.get("a", [])))
    if k == "MCall":
        if n.get("obj") is not None:
            o = show(n.get("obj"))
        else:
            o = show(n.get("callee"))
            return "%s(%s)" % (o, show(n.get("a", [])))
        return "%s.%s(%s)" % (o, n.get("m") or "?", show(n.get("a", [])))
    if k == "OpCall":
        a = n.get("a", [])
        op = n["op"]
        if op == "[]" and len(a) == 2:
            return "%s[%s]" % (show(a[0]), show(a[1]))
        if op == "()" and a:
            return "%s(%s)" % (show(a[0]), show(a[1:]))
        if len(a) == 2:
            return "(%s %s %s)" % (show(a[0]), op, show(a[1]))
        if len(a) == 1:
            return "(%s%s)" % (op, show(a[0]))
        return "op%s(%s)" % (op, show(a))
    if k in ("Ctor", "UCtor"):
        if n.get("copy") and len(n.get("a", [])) == 1:
            return show(n["a"][0])
        return "%s{%s}" % (n.get("t"), show(n.get("a", [])))
    if k == "InitList":
        return "{%s}" % show(n.get("c", []))
    if k == "Cast":
        return "(%s)%s" % (n.get("t"), show(n["c"][0]))
    if k == "Lambda":
        if LAMBDA_FULL:
            # position independent: captures (with their initialisers), parameters numbered, body
            body = show(n.get("body"))
            caps = []
            inits = list(n.get("capinits") or [])
            for c in n.get("caps") or []:
                caps.append(("&" if c.get("byref") else "") + (c.get("n") or "this"))
            if inits:
                caps = ["%s=%s" % (c, show(i)) for c, i in zip(caps, inits)] + caps[len(inits):]
            for i, p_ in enumerate(n.get("params") or []):
                if p_.get("n"):
                    body = re.sub(r"(?<![\w.:])%s\b" % re.escape(p_["n"]), "$%d" % i, body)
            return "[%s](%d)%s" % (", ".join(sorted(caps)), len(n.get("params") or []), body)
        return "[lambda@%s]" % n.get("l")
    if k == "SizeOf":
        return "sizeof(%s)" % (n.get("t") or show(n.get("e")))
    if k == "DefArg":
        return "<default>"
    if k == "DefInit":
        return show(n.get("e"))
    if k == "ZeroInit":
        return "%s{}" % n.get("t")
    if k == "Throw":
        return "throw %s" % (show(n["c"][0]) if n.get("c") else "")
    if k == "Return":
        return "return %s;" % (show(n["e"]) if n.get("e") else "")
    if k == "Decl":
        return " ".join("%s %s = %s;" % (v["t"], v["n"], show(v.get("init"))) for v in n["vars"])
    if k == "Block":
        return "{ %s }" % " ".join(show(x) for x in n["c"])
    if k == "If":
        s = "if (%s) %s" % (show(n["cond"]), show(n["then"]))
        if n.get("else"):
            s += " else " + show(n["else"])
        return s
    if k == "For":
        return "for (%s; %s; %s) %s" % (show(n.get("init")), show(n.get("cond")), show(n.get("inc")), show(n["body"]))
    if k == "ForRange":
        return "for (%s : %s) %s" % (n["var"]["n"], show(n["range"]), show(n["body"]))
    if k == "While":
        return "while (%s) %s" % (show(n["cond"]), show(n["body"]))
    if k in ("Break", "Continue"):
        return k.lower() + ";"
    if k == "New":
        return "new %s(%s)" % (n.get("t"), show(n.get("init")))
    # fallback
    cs = list(children(n))
    return "%s(%s)" % (k, ", ".join(show(c) for c in cs))


def plain_num(text):
    """renderings with floating literals that have an integral value written as integers (0.0 -> 0): for comparisons in
    which the literal is converted to a floating type anyway"""
    return re.sub(r"(?<![\w.])(\d+)\.0(?![\w.])", r"\1", text)


def meth(n):
    """(method short name, object expr) of a member call, resolved or template-dependent; else (None, None)."""
    if not isinstance(n, dict):
        return None, None
    if n.get("k") == "MCall":
        if n.get("m"):
            return n["m"], n.get("obj")
        c = n.get("callee")
        if isinstance(c, dict) and c.get("k") in ("DMem", "UMem", "Mem"):
            return c["n"], c.get("b")
    if n.get("k") == "Call" and isinstance(n.get("callee"), dict) and n["callee"].get("k") in ("DMem", "UMem", "Mem"):
        return n["callee"]["n"], n["callee"].get("b")
    return None, None


import re as _re


def simp(text):
    """Remove implicit-conversion noise from a show() rendering: defaulted arguments, converting constructors of
    std::string / std::filesystem::path, smart-pointer arrows and conversion operators."""
    t = text.replace(", <default>", "")
    t = _re.sub(r"(?:const )?std::(?:filesystem::path|string|basic_string<char>)\{([^{}]*)\}", r"\1", t)
    t = _re.sub(r"\(->(\w+)\)", r"\1", t)
    t = _re.sub(r"\.operator \w+\(\)", "", t)
    t = _re.sub(r"\((?:std::)?(?:streampos|streamoff)\)", "", t)
    t = _re.sub(r"std::(?:streampos|streamoff)\{([^{}]*)\}", r"\1", t)
    return t


def is_call_to(n, suffix):
    return isinstance(n, dict) and n.get("k") in ("Call", "MCall", "OpCall") and (n.get("fn") or "").endswith(suffix)


def _pure(e):
    """initialiser without side effects: literals, references, arithmetic, casts (no calls, no constructors with arguments)"""
    if e is None:
        return True
    for x in walk(e):
        if x.get("k") in ("Call", "MCall", "OpCall", "New", "Lambda", "Throw") or (x.get("k") == "Bin" and x.get("asg")) or (x.get("k") == "Un" and ("++" in (x.get("op") or "") or "--" in (x.get("op") or ""))):
            return False
        if x.get("k") == "Ctor" and [a for a in (x.get("a") or []) if a.get("k") != "DefArg"]:
            return False
    return True


def stmt_list(body):
    """The statements of a block, WITHOUT the ones that cannot matter to any rule: declarations of locals that nothing in the
    block refers to and whose initialiser has no side effect, empty statements, and calls of the logging facade (OpmLog::*).
    Rules that look at "the first statement" or at the exact sequence of a body are thereby insensitive to such additions."""
    if body is None:
        return []
    if body.get("k") != "Block":
        return [body]
    st = body["c"]
    if not any(s.get("k") in ("Decl", "Null_") or (s.get("k") == "Call" and (s.get("fn") or "").startswith("Opm::OpmLog::")) for s in st):
        return st
    out = []
    for i, s in enumerate(st):
        k = s.get("k")
        if k == "Null_":
            continue
        if k == "Call" and (s.get("fn") or "").startswith("Opm::OpmLog::") and all(_pure(a) for a in s.get("a") or []):
            continue
        if k == "Decl" and s.get("vars") and all(_pure(v.get("init")) and not v.get("ref") for v in s["vars"]):
            names = {v["n"] for v in s["vars"]}
            used = False
            for t in st[i + 1:]:
                for x in walk(t):
                    if x.get("k") == "Ref" and x.get("n") in names:
                        used = True
                        break
                    if x.get("k") == "Lambda" and any(c.get("n") in names for c in x.get("caps") or []):
                        used = True
                        break
                if used:
                    break
            if not used:
                continue
        out.append(s)
    return out


# --------------------------------------------------------------------------------------
# structured must-pass analysis (the code base has no goto; checked by callers)


def has_goto(n):
    return any(x["k"] == "Goto" for x in walk(n))


def escapes_without(fn_body, start, is_barrier, pmap=None):
    """Structured path analysis: starting right after statement `start` (a node somewhere in fn_body), is there a path to a
    `return` (or the end of the function) that does not execute a statement for which is_barrier(stmt) holds?
    Returns the list of offending exits (Return nodes, or the string 'end of function').  Throw ends a path harmlessly.
    Loops are assumed to run zero or more times; `break`/`continue` continue behind the enclosing loop (continue: also
    behind it, conservatively).  The code must not contain goto (callers check)."""
    if pmap is None:
        pmap = {}
        for x in walk(fn_body):
            for ch in children(x):
                pmap[id(ch)] = x
    LOOPS = ("For", "While", "ForRange", "Do")

    def run(stmts):
        """outcomes of executing stmts from a state where no barrier was seen: set of ('fall'|'break'|'done'|('ret', node))"""
        out = {"fall"}
        for s in stmts:
            if "fall" not in out:
                break
            out.discard("fall")
            out |= eff(s)
        return out

    def eff(s):
        k = s.get("k")
        if is_barrier(s):
            return {"done"}
        if k == "Return":
            return {("ret", id(s), s.get("l"))}
        if k == "Throw":
            return {"done"}
        if k in ("Break", "Continue"):
            return {"break"}
        if k == "Block":
            return run(s["c"])
        if k == "If":
            a = run(stmt_list_raw(s["then"]))
            b = run(stmt_list_raw(s["else"])) if s.get("else") is not None else {"fall"}
            return a | b
        if k in LOOPS:
            r = run(stmt_list_raw(s["body"]))
            res = {"fall"}
            for o in r:
                if o in ("fall", "break"):
                    res.add("fall")
                elif o == "done":
                    pass        # a barrier inside a loop body is not guaranteed (zero iterations)
                else:
                    res.add(o)
            return res
        if k == "Try":
            return run(stmt_list_raw(s["body"])) if isinstance(s.get("body"), dict) else {"fall"}
        if k == "Switch":
            return {"fall"} | {o for o in run(stmt_list_raw(s.get("body") or {"k": "Block", "c": []})) if o != "break"}
        if any(x.get("k") == "Throw" for x in walk(s)) and k not in ("Decl",):
            return {"fall"}
        return {"fall"}

    bad = []
    cur = start
    state = {"fall"}
    while True:
        par = pmap.get(id(cur))
        if par is None:
            if "fall" in state:
                bad.append("end of function")
            break
        nxt = set()
        if par.get("k") == "Block":
            idx = [i for i, x in enumerate(par["c"]) if x is cur][0]
            if "fall" in state:
                r = run(par["c"][idx + 1:])
                state.discard("fall")
                state |= r
        elif par.get("k") in LOOPS:
            # leaving the body by falling off its end or by break/continue: go on behind the loop
            if "fall" in state or "break" in state:
                state.discard("break")
                state.add("fall")
        for o in list(state):
            if isinstance(o, tuple):
                bad.append(o)
                state.discard(o)
        state.discard("done")
        if not state:
            break
        cur = par
    return bad


def stmt_list_raw(body):
    if body is None:
        return []
    return body["c"] if body.get("k") == "Block" else [body]
