"""Use after move of a local object.

A local (or by-value / rvalue parameter) x of class type that is handed to std::move(x) as a call / constructor argument
or as the right-hand side of an assignment is *moved from* after that statement.  Until x is given a new value
(x = ..., x.clear() / assign / reset / emplace, or its declaration is executed again) any other use reads an
unspecified - in practice empty - object.

Two shapes are decided on the structured AST (no goto in the code base):
  loop     the move is inside a loop body, x is declared outside that loop, no statement of the loop body executed
           before the move on the next iteration re-initialises x, and the move is not followed by leaving the loop
           -> the second iteration uses the moved-from object
  straight a later statement of the same statement list (or of an enclosing one, up to the function body or the next
           enclosing loop) uses x before re-initialising it
Objects of scalar / pointer type and std::move inside an unevaluated or conditional-expression context are skipped.

analyse(fn) -> (number of moves followed, [(line of the use, variable, line of the move, shape)])"""
import re

from verif.tree import decast, show, strip, walk
from verif.cow import parent_map

SCALAR = re.compile(r"^(const )?(unsigned |signed )?(int|long|short|char|double|float|bool|unsigned|(std::)?size_t|(std::)?u?int(8|16|32|64)_t|auto)( const)?$")
REINIT = ("clear", "assign", "reset", "emplace", "swap", "operator=", "resize")


def _is_move(n):
    return n.get("k") == "Call" and (n.get("fn") == "std::move" or ((n.get("callee") or {}).get("n") == "move" and (n.get("callee") or {}).get("qual") == "std::")) and len(n.get("a") or []) == 1


def _uses(stmt, name, dl):
    """(first use kind, node): 'reinit' if the statement gives the variable a new value before any read, 'use' if it
    reads it, None if it does not mention it"""
    refs = [r for r in walk(stmt) if r.get("k") == "Ref" and r.get("n") == name and r.get("dl") == dl]
    if not refs:
        return None, None
    s = strip(stmt)
    if s.get("k") == "Bin" and s.get("asg") and s.get("op") == "=" and decast(s["c"][0]).get("n") == name and not any(r.get("n") == name and r.get("dl") == dl for r in walk(s["c"][1]) if r.get("k") == "Ref"):
        return "reinit", s
    if s.get("k") == "OpCall" and s.get("op") == "=" and s.get("a") and decast(s["a"][0]).get("n") == name and decast(s["a"][0]).get("k") == "Ref":
        if not any(r.get("k") == "Ref" and r.get("n") == name and r.get("dl") == dl for a in s["a"][1:] for r in walk(a)):
            return "reinit", s
    if s.get("k") == "MCall" and s.get("m") in REINIT and decast(s.get("obj") or {}).get("n") == name and decast(s.get("obj") or {}).get("k") == "Ref":
        return "reinit", s
    return "use", refs[0]


def _leaves(st):
    return st.get("k") in ("Break", "Return", "Throw", "Continue")


def analyse(fn):
    body = fn.get("body")
    if not body:
        return 0, []
    par = parent_map(fn)
    decl_of = {}
    for n in walk(body):
        if n.get("k") == "Decl":
            for v in n["vars"]:
                decl_of[(v.get("n"), v.get("l"))] = (n, v)
    out = []
    n_moves = 0
    for mv in walk(body):
        if not _is_move(mv):
            continue
        x = decast(mv["a"][0])
        if x.get("k") != "Ref" or x.get("d") != "Var":
            continue
        t = (x.get("t") or "").strip()
        if SCALAR.match(t) or t.endswith("*") or t.endswith("&") and False:
            continue
        dkey = (x.get("n"), x.get("dl"))
        if dkey not in decl_of:
            continue
        dv = decl_of[dkey][1]
        if dv.get("ref") or dv.get("ptr"):
            continue
        # the statement containing the move and the chain of enclosing statements
        chain = []
        cur = mv
        while id(cur) in par:
            p = par[id(cur)]
            chain.append((p, cur))
            cur = p
        # a move inside a conditional expression, lambda or sizeof is not followed
        if any(p.get("k") in ("Cond", "Lambda") for p, _ in chain):
            continue
        n_moves += 1
        decl_stmt = decl_of[dkey][0]
        # statement of the move = the child of the innermost Block
        found = None
        for i, (p, child) in enumerate(chain):
            if p.get("k") == "Block":
                found = i
                break
        if found is None:
            continue
        # walk outwards: after the move's statement in each enclosing block, until the declaration's block
        reported = False
        stmt = chain[found][1]
        lvl = found
        while lvl is not None and not reported:
            blk, stmt = chain[lvl]
            if strip(stmt).get("k") in ("Return", "Throw"):
                break        # the statement that moves also leaves the function
            kids = [k_ for k_ in blk.get("c") or [] if isinstance(k_, dict)]
            idx = next((i for i, k_ in enumerate(kids) if k_ is stmt), None)
            after = kids[idx + 1:] if idx is not None else []
            stop = False
            for st in after:
                kind, node = _uses(st, x["n"], x.get("dl"))
                if kind == "reinit":
                    stop = True
                    break
                if kind == "use":
                    out.append((node.get("l"), x["n"], mv.get("l"), "straight"))
                    reported = stop = True
                    break
                if _leaves(st):
                    stop = True
                    break
            if stop:
                break
            if any(k_ is decl_stmt for k_ in kids):
                break        # x does not live beyond this block
            # continue in the enclosing block; passing a loop boundary is the loop shape
            nxt = None
            for j in range(lvl + 1, len(chain)):
                p, child = chain[j]
                if p.get("k") in ("For", "While", "ForRange", "Do"):
                    # x is declared outside this loop (its declaration was not in any block so far)
                    lbody = p.get("body")
                    lk = [k_ for k_ in (lbody.get("c") if isinstance(lbody, dict) and lbody.get("k") == "Block" else [lbody]) or [] if isinstance(k_, dict)]
                    # does the path from the move to the end of the loop body leave the loop?  (checked above per level: no)
                    first = None
                    for st in lk:
                        kind, node = _uses(st, x["n"], x.get("dl"))
                        if kind is not None:
                            first = (kind, node)
                            break
                    if first and first[0] == "use":
                        out.append((first[1].get("l"), x["n"], mv.get("l"), "loop"))
                        reported = True
                    nxt = None
                    break
                if p.get("k") == "Block":
                    nxt = j
                    break
            lvl = nxt
    return n_moves, out


def run(chk, prefix, scope_re, floor):
    """<prefix>.moved over the functions whose file matches scope_re"""
    from verif import core
    r = chk.rule(prefix + ".moved", "no local object is used after it was handed to std::move - neither by a later statement on the same path nor by the next iteration of a loop that encloses the move but not the object's declaration - unless it is given a new value first (assignment, clear / assign / reset / emplace) or the moving statement leaves the function or loop.  A moved-from working copy that is modified and installed again replaces the longer-lived state by an (empty) remnant", floor=floor)
    fx = chk.facts(core.library_units())
    rx = re.compile(scope_re)
    for f in fx.fns:
        if not f.get("body") or not rx.search(f["file"]):
            continue
        n, rep = analyse(f)
        if not n:
            continue
        key = "%s@%d" % (f["q"], f["l"])
        chk.instance(r, key, sample=dict(function=f["q"], moves=n, uses_after_move=len(rep)))
        for ul, var, ml, shape in rep:
            chk.violation(r, key, "%s: `%s` is moved from at line %s and %s at line %s without having been given a new value" % (
                f["q"], var, ml, "used again by the next iteration of the enclosing loop" if shape == "loop" else "used afterwards", ul), f["file"], ul)
