"""Width of file offsets: a value that denotes a position or a byte count in a file must never pass through a type
narrower than 64 bits (result files exceed 2 GiB routinely; a 32-bit offset wraps and the following seek fails or lands
on the wrong array).

analyse(fn, is_source) follows, inside one function, every *offset value* forwards:
   sources      tellg() / tellp() results, the size-on-disk functions, elements of the stored position tables (given by
                the caller through `is_source(node)`)
   propagation  through conversion operators and casts, + - * with other values, parenthesised expressions, the
                conditional operator, and locals initialised / assigned from an offset value (those become offset
                variables; a flow-insensitive set, computed to a fixpoint)
   sinks        a cast (explicit or implicit) to a narrow arithmetic type, a declaration or assignment of a narrow
                variable, a narrow parameter of a callee
Comparisons, subscripts and calls to other functions end the propagation (their result is not the offset).
Reports (line, expression text, narrow type, what)."""
import re

from verif.tree import show, strip, walk
from verif.cow import parent_map

NARROW = re.compile(r"^(const )?((un)?signed )?(int|short|char|unsigned|float|(std::)?u?int(8|16|32)_t|(un)?signed char|(un)?signed short|short int|unsigned int)( const)?$")


def is_narrow(t):
    return bool(t) and NARROW.match(t.strip()) is not None


def analyse(fn, is_source):
    par = parent_map(fn)
    reports = []
    seen_rep = set()
    tainted_vars = set()

    def report(node, t, what):
        key = (node.get("l"), t, what)
        if key not in seen_rep:
            seen_rep.add(key)
            reports.append((node.get("l"), show(node)[:100], t, what))

    def climb(n):
        """follow the value of node n upwards; returns the names of locals that receive it"""
        got = set()
        cur = n
        while True:
            p = par.get(id(cur))
            if p is None:
                return got
            k = p["k"]
            if k == "Cast":
                if is_narrow(p.get("t")):
                    report(p, p.get("t"), "converted to")
                    return got
                cur = p
                continue
            if k == "MCall" and p.get("obj") is cur and (p.get("m") or "").startswith("operator ") and not p.get("a"):
                if is_narrow(p.get("t")):
                    report(p, p.get("t"), "converted to")
                    return got
                cur = p
                continue
            if k == "Bin" and not p.get("asg") and p.get("op") in ("+", "-", "*"):
                if is_narrow(p.get("t")):
                    report(p, p.get("t"), "computed in")
                    return got
                cur = p
                continue
            if k == "Cond" and p["c"][0] is not cur:
                cur = p
                continue
            if k == "Paren":
                cur = p
                continue
            if k == "Bin" and p.get("asg") and p["c"][1] is cur:
                tgt = strip(p["c"][0])
                tt = tgt.get("t")
                if is_narrow(tt):
                    report(p, tt, "assigned to a variable of type")
                elif tgt.get("k") == "Ref" and tgt.get("d") in ("Var", "Parm") and p.get("op") in ("=", "+=", "-="):
                    got.add((tgt["n"], tgt.get("dl")))
                return got
            if k == "Decl":
                for v in p["vars"]:
                    if v.get("init") is cur:
                        if is_narrow(v.get("t")):
                            report(p, v.get("t"), "stored in a variable of type")
                        elif not v.get("ref") or True:
                            got.add((v["n"], v.get("l")))
                return got
            if k in ("Call", "MCall", "Ctor") and cur in (p.get("a") or []):
                pt = p.get("pt") or []
                i = (p.get("a") or []).index(cur)
                if i < len(pt) and is_narrow(pt[i].replace("const ", "").replace("&", "").strip()):
                    report(p, pt[i], "passed to a parameter of type")
                return got
            if k == "Return":
                rt = fn.get("ret") or ""
                if is_narrow(rt):
                    report(p, rt, "returned as")
                return got
            return got

    work = [n for n in walk(fn["body"]) if is_source(n)]
    done = set()
    while work:
        n = work.pop()
        if id(n) in done:
            continue
        done.add(id(n))
        for name, dl in climb(n):
            if (name, dl) in tainted_vars:
                continue
            tainted_vars.add((name, dl))
            for r in walk(fn["body"]):
                if r.get("k") == "Ref" and r.get("n") == name and r.get("dl") == dl:
                    # a use of the variable as a value (not as the target of an assignment)
                    pp = par.get(id(r))
                    if pp is not None and pp.get("k") == "Bin" and pp.get("asg") and pp["c"][0] is r:
                        continue
                    work.append(r)
    return reports, sorted(n for n, _ in tainted_vars), len(done)


def _io_source(n):
    k = n.get("k")
    if k == "MCall" and n.get("m") in ("tellg", "tellp"):
        return True
    if k in ("Call", "MCall") and re.search(r"sizeOnDisk(Binary|Formatted)$", n.get("fn") or n.get("m") or ""):
        return True
    if k in ("OpCall", "Idx") and "64" in (n.get("t") or "") and re.search(r"(ifStreamPos|Pos\b|_pos\b|pos_)", show(n)):
        return True
    return False


def run_offwidth(chk, prefix, floor=10):
    """<prefix>.offwidth over every unit of opm/io/eclipse"""
    from verif import core
    rid = prefix + ".offwidth"
    r = chk.rule(rid, "opm/io/eclipse: a file position or on-disk byte count (tellg / tellp, sizeOnDiskBinary / sizeOnDiskFormatted, an entry of a stored position table), and every local computed from one by + - * or conversion, never passes through a type narrower than 64 bits - not in a declaration, an assignment, a cast, a narrow parameter or a return type: beyond 2 GiB a 32-bit offset wraps, the seek that uses it fails, and a unified restart / summary file can neither be indexed, extended nor rewound", floor=floor)
    units = [u for u in core.library_units() if "opm/io/eclipse/" in u]
    fx = chk.facts(units)
    for f in fx.fns:
        if not f.get("body") or "/opm/io/eclipse/" not in f["file"]:
            continue
        rep, tv, nd = analyse(f, _io_source)
        if not nd:
            continue
        key = "%s@%d" % (f["q"], f["l"])
        chk.instance(r, key, sample=dict(function=f["q"], offset_variables=tv, values_followed=nd))
        for line, text, t, what in rep:
            chk.violation(r, key, "%s: the file offset `%s` is %s `%s` (32 bits or fewer): positions beyond 2 GiB wrap" % (f["q"], text, what, t), f["file"], line)
