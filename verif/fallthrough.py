"""Unannotated fall-through in a switch: a labelled section that has statements of its own and whose last statement
neither leaves the switch (break / return / throw / continue / goto) nor is a [[fallthrough]] annotation, directly
followed by the next label.  Stacked labels (`case A: case B: stmt`) are one section.

sections(switch) -> [(labels, statements)], fallthroughs(switch) -> [(line of the section's last statement, labels, next labels)]"""
from verif.tree import show, walk

LEAVES = ("Break", "Return", "Throw", "Continue", "Goto")


def _unstack(n, labels):
    """a Case/Default node may carry the next label as its sub-statement"""
    while isinstance(n, dict) and n.get("k") in ("Case", "Default"):
        labels.append(show(n["v"]) if n.get("k") == "Case" and isinstance(n.get("v"), dict) else "default")
        n = n.get("sub")
    return n


def sections(sw):
    body = sw.get("body") or {}
    kids = body.get("c") if body.get("k") == "Block" else [body]
    out = []
    for st in kids or []:
        if isinstance(st, dict) and st.get("k") in ("Case", "Default"):
            labels = []
            first = _unstack(st, labels)
            if out and not out[-1][1]:
                out[-1][0].extend(labels)        # labels stacked as siblings
            else:
                out.append((labels, []))
            if isinstance(first, dict):
                out[-1][1].append(first)
        elif out and isinstance(st, dict):
            out[-1][1].append(st)
    return out


def _leaves(st):
    k = st.get("k")
    if k in LEAVES:
        return True
    if k == "Block":
        c = [x for x in st.get("c") or [] if isinstance(x, dict) and x.get("k") != "Null_"]
        return bool(c) and _leaves(c[-1])
    if k == "If":
        return st.get("else") is not None and _leaves(st["then"]) and _leaves(st["else"])
    if k in ("Call", "MCall"):
        fn = st.get("fn") or ""
        return fn.split("::")[-1] in ("abort", "exit", "terminate", "_Exit", "quick_exit", "unreachable", "__builtin_unreachable")
    if k == "Try":
        return False
    return False


def fallthroughs(sw):
    secs = sections(sw)
    out = []
    for i, (labels, sts) in enumerate(secs[:-1]):
        sts = [s for s in sts if s.get("k") not in ("Null_",)]
        if not sts:
            continue
        last = sts[-1]
        if last.get("k") == "?AttributedStmt":
            continue
        if not _leaves(last):
            out.append((last.get("l"), labels, secs[i + 1][0]))
    return out


def anchor_units(prop):
    """the .cpp files the property is anchored in (properties.jsonl: anchors.files and the files named by mechanism /
    state entries) that are units of the library"""
    import json
    import os
    import re
    from verif import core
    here = os.path.join(os.path.dirname(os.path.abspath(__file__)), "..", "properties.jsonl")
    files = []
    for line in open(here):
        d = json.loads(line)
        if d["id"] != prop:
            continue
        a = d.get("anchors") or {}
        files += list(a.get("files") or [])
        for key in ("mechanism", "state"):
            for m in a.get(key) or []:
                for w in re.findall(r"[\w/.\-]+\.(?:cpp|hpp)", m.get("where") or ""):
                    files.append(w)
    units = set(core.library_units())
    rel = lambda u: u[len(core.REPO) + 1:] if u.startswith(core.REPO + "/") else u
    byrel = {rel(u): u for u in units}
    return sorted({byrel[f] for f in files if f in byrel})


def run(chk, prefix, floor):
    """<prefix>.switch over the property's anchor units"""
    from verif import core
    from verif.tree import walk as _walk
    r = chk.rule(prefix + ".switch", "in the files this property is anchored in, every switch section that has statements of its own ends by leaving the switch (break, return, throw, continue, or an if/else whose branches all do); only label-only sections (`case A: case B:`) share the code of the next label.  A section that runs on into the next one executes the other case's code as well - for a selection by enumerator (control modes, categories, token and array types) the first case then behaves like the second.  The rule does not depend on [[fallthrough]] annotations: all annotated sites of the tree are label-only sections", floor=floor)
    units = anchor_units(prefix)
    if not units:
        raise core.AnalysisBroken("%s: no anchor unit found for the switch rule" % prefix)
    fx = chk.facts(units)
    afiles = {u if u.startswith("/") else core.REPO + "/" + u for u in units}
    for f in fx.fns:
        if not f.get("body") or f["file"] not in afiles:
            continue
        for sw in _walk(f["body"]):
            if sw.get("k") != "Switch":
                continue
            secs = sections(sw)
            key = "%s@%d" % (f["q"], sw.get("l") or 0)
            chk.instance(r, key, sample=dict(function=f["q"], on=show(sw.get("cond") or {})[:60], sections=len(secs)))
            for line, labels, nxt in fallthroughs(sw):
                sts = [s for s in dict((id(s_), s_) for lab, ss in secs if lab == labels for s_ in ss).values() if s.get("k") != "Null_"]
                if sts and all(s.get("k") == "?AttributedStmt" for s in sts):
                    continue
                chk.violation(r, key, "%s: the section of `%s` (switch on %s) does not leave the switch: control runs on into the section of `%s`" % (f["q"], ", ".join(labels), show(sw.get("cond") or {})[:60], ", ".join(nxt)), f["file"], line)
