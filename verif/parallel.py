"""Parallel containers: two member sequences of one class that are indexed with the same index, where only one of
them (the *guard*) is consulted for the range check.  The class is memory safe only while both have the same length, so
every statement list that changes the length of one must change the length of the other by the same amount.

ops(fn, guard, data, ref_methods) -> list of (statement-list id, line, base object, 'guard'|'data', operation) where the
operation is a position- and name-independent description of the length change:
      ('grow', '1')            push_back / emplace_back
      ('grow', 'n')            insert(c.end(), n, v)
      ('shrink', '1')          pop_back
      ('clear',) ('resize', 'expr') ('assign', '<rhs with the member name masked>') ('other', text)
unbalanced(fn, ...) -> the statement lists in which the multiset of guard operations differs from that of the data
operations (per base object).  Capacity-only calls (reserve, shrink_to_fit) and reads are ignored."""
import re

from verif.tree import meth, show, stmt_list, strip, walk

GROW1 = ("push_back", "emplace_back")
IGNORE = ("reserve", "shrink_to_fit", "size", "empty", "begin", "end", "cbegin", "cend", "rbegin", "rend", "at", "front", "back", "data",
          "capacity", "operator[]")


def _stmt_lists(body):
    """every statement list of a function body, outermost first"""
    out = []
    todo = [body]
    while todo:
        b = todo.pop()
        if b is None:
            continue
        sl = stmt_list(b)
        out.append(sl)
        for s in sl:
            k = s.get("k")
            if k == "If":
                todo.append(s.get("then"))
                if s.get("else") is not None:
                    todo.append(s["else"])
            elif k in ("For", "While", "ForRange", "Do"):
                todo.append(s.get("body"))
            elif k == "Block":
                todo.append(s)
            elif k == "Try":
                todo.append(s.get("body"))
                for h in s.get("handlers") or []:
                    todo.append(h.get("body") if isinstance(h, dict) else None)
            elif k == "Switch":
                todo.append(s.get("body"))
            elif k in ("Case", "Default"):
                todo.append(s.get("sub") or s.get("body"))
    return out


def _classify(text, guard, data, locals_):
    """(base, 'guard'|'data', member) for the rendering of a container expression, or None"""
    t = text
    if t in locals_:
        return "this.", "data", t
    m = re.fullmatch(r"(.*?\b)?(\w+)", t)
    if not m:
        return None
    base, name = m.group(1) or "this.", m.group(2)
    if base == "":
        base = "this."
    if name == guard:
        return base, "guard", name
    if name in data:
        return base, "data", name
    return None


def ops(fn, guard, data, ref_methods=()):
    locals_ = set()
    for n in walk(fn["body"]):
        if n.get("k") == "Decl":
            for v in n["vars"]:
                if v.get("ref") and isinstance(v.get("init"), dict):
                    # a reference to the data vector, possibly behind a const_cast of `this`
                    for c in walk(v["init"]):
                        mn, _ = meth(c)
                        if mn in ref_methods:
                            locals_.add(v["n"])
    out = []
    for li, sl in enumerate(_stmt_lists(fn["body"])):
        for s in sl:
            n = strip(s)
            mn, obj = meth(n)
            if mn and obj is not None:
                cl = _classify(show(strip(obj)), guard, data, locals_)
                if cl is None or mn in IGNORE:
                    continue
                base, side, member = cl
                args = n.get("a") or []
                if mn in GROW1:
                    op = ("grow", "1")
                elif mn == "insert" and len(args) == 3 and re.fullmatch(r".*\.c?end\(\)", show(strip_iter(args[0]))):
                    op = ("grow", show(strip(args[1])))
                elif mn == "pop_back":
                    op = ("shrink", "1")
                elif mn == "clear":
                    op = ("clear",)
                elif mn == "resize":
                    op = ("resize", show(strip(args[0])) if args else "")
                else:
                    op = ("other", mn)
                out.append((li, n.get("l"), base, side, member, op))
                continue
            tgt = rhs = None
            if n.get("k") == "Bin" and n.get("asg") and n.get("op") == "=":
                tgt, rhs = n["c"]
            elif n.get("k") == "OpCall" and n.get("op") == "=" and len(n.get("a") or []) == 2:
                tgt, rhs = n["a"]
            if tgt is not None:
                cl = _classify(show(strip(tgt)), guard, data, locals_)
                if cl is None:
                    continue
                base, side, member = cl
                r = strip(rhs)
                if r.get("k") in ("InitList", "Ctor") and not r.get("copy"):
                    op = ("assign-list", str(len([a for a in (r.get("c") or r.get("a") or []) if isinstance(a, dict)])))
                else:
                    op = ("assign", re.sub(r"\b%s\b" % re.escape(member), "#", show(r)))
                out.append((li, n.get("l"), base, side, member, op))
    return out, locals_


def strip_iter(e):
    """an iterator argument is often wrapped in a converting constructor (iterator -> const_iterator)"""
    e = strip(e)
    while e.get("k") == "Ctor" and len(e.get("a") or []) == 1:
        e = strip(e["a"][0])
    return e


def unbalanced(fn, guard, data, ref_methods=(), strict=False):
    """Each data member that changes length in a statement list must change exactly as the guard does there, and a
    change of the guard must be accompanied by at least one data member (a class with several typed data vectors, of
    which one is in use, changes the one in use)."""
    got, locals_ = ops(fn, guard, data, ref_methods)
    groups = {}
    for li, line, base, side, member, op in got:
        g = groups.setdefault((li, base), {"guard": [], "data": {}, "line": line})
        if side == "guard":
            g["guard"].append(op)
        else:
            g["data"].setdefault(member, []).append(op)
    bad = []
    for (li, base), g in sorted(groups.items(), key=lambda kv: kv[1]["line"] or 0):
        wrong = {m: o for m, o in g["data"].items() if sorted(o) != sorted(g["guard"])}
        if strict:
            # a record kept as columns: every column changes whenever one does
            for m in data:
                if m not in g["data"] and g["guard"]:
                    wrong[m] = []
        if wrong or (g["guard"] and not g["data"]):
            bad.append((g["line"], base, g["guard"], wrong or {}))
    return got, bad
