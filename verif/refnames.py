"""Alpha-normalisation of function facts against the local names of the pinned tree.

Rules anchor on a few local variable / parameter names of the pinned source (`bhead`, `nBlocks`, `prev`, ...).  A local's
name carries no behaviour, so a rename must never change a verdict.  Instead of rewriting every rule, the facts of each
function are alpha-renamed after loading: locals whose names still exist keep them; the remaining ones are aligned, in
declaration order and only if their types agree one to one, with the names the same function had on the pinned tree
(tables/ref_locals.json, written by `tool/gen_ref_locals.sh`).  The renaming is a consistent bijection on the locals of the
function - an alpha-conversion - so whatever a rule then concludes holds for the code as written.  If the alignment is not
unambiguous the facts are left as they are (the behaviour without this module)."""
import json
import os
import re

_TABLE = None
_RECORD = {}
PATH = os.path.join(os.path.dirname(os.path.abspath(__file__)), "..", "tables", "ref_locals.json")


def _walk(n):
    stack = [n]
    while stack:
        x = stack.pop()
        if isinstance(x, dict):
            yield x
            for v in x.values():
                if isinstance(v, (dict, list)):
                    stack.append(v)
        elif isinstance(x, list):
            stack.extend(reversed(x))


def _normt(t):
    """type text without source positions (closure / unnamed types print `(lambda at file:line:col)`)"""
    return re.sub(r"\((lambda|unnamed \w+|anonymous \w+) at [^)]*\)", r"(\1)", t or "")


def key_of(fn):
    return "%s|%s|%s" % (fn.get("q"), fn.get("sig"), os.path.basename(fn.get("file") or ""))


def local_entries(fn):
    """Declaration sites of locals in source order: list of (dict, kind) where dict has n / l / t."""
    out = []
    for p_ in fn.get("params") or []:
        if isinstance(p_, dict) and p_.get("n"):
            out.append(p_)
    for part in (fn.get("inits"), fn.get("body")):
        if part is None:
            continue
        for n in _walk(part):
            k = n.get("k")
            if k == "Decl":
                for v in n.get("vars") or []:
                    if isinstance(v, dict) and v.get("n"):
                        out.append(v)
            elif k == "ForRange" and isinstance(n.get("var"), dict) and n["var"].get("n"):
                out.append(n["var"])
            elif k == "Lambda":
                for p_ in n.get("params") or []:
                    if isinstance(p_, dict) and p_.get("n"):
                        out.append(p_)
            elif k == "If" and isinstance(n.get("condvar"), dict) and n["condvar"].get("n") and "k" not in n["condvar"]:
                out.append(n["condvar"])
    # _walk is not in source order for dict values in general; order by (line, appearance)
    seen, uniq = set(), []
    for i, d in enumerate(out):
        if id(d) in seen:
            continue
        seen.add(id(d))
        uniq.append(d)
    nparams = len([p_ for p_ in fn.get("params") or [] if isinstance(p_, dict) and p_.get("n")])
    head, tail = uniq[:nparams], uniq[nparams:]
    tail = [d for _, _, d in sorted(((d.get("l") or 0, i, d) for i, d in enumerate(tail)), key=lambda t: (t[0], t[1]))]
    return head + tail


def record(fn):
    _RECORD[key_of(fn)] = [[d["n"], d.get("t") or ""] for d in local_entries(fn)]


def flush_record():
    if not _RECORD:
        return
    cur = {}
    if os.path.exists(PATH):
        cur = json.load(open(PATH))
    cur.update(_RECORD)
    with open(PATH, "w") as fh:
        json.dump(cur, fh, sort_keys=True, separators=(",", ":"))
        fh.write("\n")


def table():
    global _TABLE
    if _TABLE is None:
        _TABLE = json.load(open(PATH)) if os.path.exists(PATH) else {}
    return _TABLE


def mapping(fn, ref):
    """{(name, decl line): reference name} or {} when nothing has to be / can be renamed."""
    cur = local_entries(fn)
    left = list(range(len(ref)))
    cur_left = []
    for d in cur:
        hit = None
        for i in left:
            if ref[i][0] == d["n"]:
                hit = i
                break
        if hit is None:
            cur_left.append(d)
        else:
            left.remove(hit)
    if not cur_left or len(cur_left) != len(left):
        return {}
    m = {}
    for d, i in zip(cur_left, left):
        if _normt(d.get("t")) != _normt(ref[i][1]):
            return {}
        m[(d["n"], d.get("l"))] = ref[i][0]
    names_now = {d["n"] for d in cur}
    if any(v in names_now for v in m.values()):
        return {}
    return m


def _literalish(e):
    while isinstance(e, dict) and e.get("k") == "Cast" and e.get("c"):
        e = e["c"][0]
    if not isinstance(e, dict):
        return False
    k = e.get("k")
    if k in ("Int", "Flt", "Str", "Chr", "Bool", "Null"):
        return True
    if k == "Ref" and (e.get("d") == "Enum" or "ev" in e or e.get("n") in ("npos", "nullopt")):
        return True
    if k in ("DRef", "ULookup") and e.get("n") in ("npos", "nullopt"):
        return True
    if k == "Un" and e.get("op") in ("-", "+") and e.get("c"):
        return _literalish(e["c"][0])
    if k in ("MCall", "Call") and (e.get("m") in ("end", "cend", "rend") or (isinstance(e.get("callee"), dict) and e["callee"].get("n") in ("end", "cend", "rend"))):
        return True
    if k in ("Ctor", "InitList", "Temp", "Bind"):
        kids = [a for a in (e.get("a") or e.get("c") or []) if isinstance(a, dict) and a.get("k") != "DefArg"]
        return len(kids) == 1 and _literalish(kids[0])
    return False


def canonical_equalities(fn):
    """a == b and b == a are the same test: put the constant-like operand (literal, enumerator, end(), npos) on the right;
    when both or neither are constant-like, order the operands by their rendering.  Done on the loaded facts so that every
    rule sees one spelling."""
    from verif.tree import show
    n_sw = 0
    for part in (fn.get("inits"), fn.get("body")):
        if part is None:
            continue
        for n in _walk(part):
            if n.get("op") not in ("==", "!="):
                continue
            key = "c" if n.get("k") == "Bin" else "a" if n.get("k") == "OpCall" else None
            if key is None or not isinstance(n.get(key), list) or len(n[key]) != 2:
                continue
            a, b = n[key]
            la, lb = _literalish(a), _literalish(b)
            swap = (la and not lb) or (la == lb and show(a) > show(b))
            if swap:
                n[key] = [b, a]
                n_sw += 1
    return n_sw


def canonical_compound(fn):
    """x = x + e  and  x += e  are one statement: the plain assignment whose right-hand side is `x OP e` (OP one of
    + - *, x a plain variable, the built-in operator) is loaded as the compound assignment."""
    n_rw = 0

    def unwrap(e):
        while isinstance(e, dict) and e.get("k") in ("Cast", "Paren") and e.get("c") and e.get("ck") not in ("static", "reinterpret", "const", "dynamic", "functional", "cstyle"):
            e = e["c"][0]
        return e
    for part in (fn.get("inits"), fn.get("body")):
        if part is None:
            continue
        for n in _walk(part):
            if n.get("k") != "Bin" or not n.get("asg") or n.get("op") != "=" or not isinstance(n.get("c"), list) or len(n["c"]) != 2:
                continue
            lhs = unwrap(n["c"][0])
            rhs = unwrap(n["c"][1])
            if not (isinstance(lhs, dict) and lhs.get("k") == "Ref" and lhs.get("d") in ("Var", "Parm")):
                continue
            if not (isinstance(rhs, dict) and rhs.get("k") == "Bin" and rhs.get("op") in ("+", "-", "*") and not rhs.get("asg")):
                continue
            a = unwrap(rhs["c"][0])
            if isinstance(a, dict) and a.get("k") == "Ref" and a.get("n") == lhs.get("n") and a.get("dl") == lhs.get("dl"):
                n["op"] = rhs["op"] + "="
                n["c"] = [n["c"][0], unwrap(rhs["c"][1])]
                n_rw += 1
    return n_rw


def canonical_emplace(fn):
    """v.emplace_back(x) with a single argument on a standard sequence is v.push_back(x) for every purpose of the rules
    (the element is constructed from x either way): loaded as push_back."""
    n_rw = 0
    for part in (fn.get("inits"), fn.get("body")):
        if part is None:
            continue
        for n in _walk(part):
            if n.get("k") == "MCall" and n.get("m") == "emplace_back" and (n.get("cls") or "").startswith("std::") and len([a for a in n.get("a") or [] if isinstance(a, dict) and a.get("k") != "DefArg"]) == 1:
                n["m"] = "push_back"
                if n.get("fn"):
                    n["fn"] = n["fn"].replace("emplace_back", "push_back")
                n_rw += 1
            elif n.get("k") in ("Call", "MCall") and isinstance(n.get("callee"), dict) and n["callee"].get("k") in ("DMem", "UMem") and n["callee"].get("n") == "emplace_back" and len(n.get("a") or []) == 1:
                n["callee"]["n"] = "push_back"
                n_rw += 1
    return n_rw


def canonical_if(fn):
    """if (!(c)) A else B  is  if (c) B else A: an if-else whose whole condition is a negation is loaded with the
    negation removed and the branches exchanged (only when both branches exist)."""
    n_rw = 0
    for part in (fn.get("inits"), fn.get("body")):
        if part is None:
            continue
        for n in _walk(part):
            if n.get("k") != "If" or n.get("else") is None or not isinstance(n.get("cond"), dict) or n.get("condvar"):
                continue
            c = n["cond"]
            while isinstance(c, dict) and c.get("k") in ("Paren",) and c.get("c"):
                c = c["c"][0]
            if isinstance(c, dict) and c.get("k") == "Un" and c.get("op") == "!" and c.get("c"):
                inner = c["c"][0]
                if isinstance(n["else"], dict) and n["else"].get("k") == "If":
                    continue          # an else-if chain keeps its order
                n["cond"] = inner
                n["then"], n["else"] = n["else"], n["then"]
                n_rw += 1
    return n_rw


def normalise(fn):
    """Rename the locals of `fn` (in place) to the pinned tree's names where the alignment is unambiguous."""
    if os.environ.get("VERIF_REFNAMES_RECORD"):
        record(fn)
        return 0
    if os.environ.get("VERIF_NO_REFNAMES"):
        return 0
    ref = table().get(key_of(fn))
    if not ref:
        return 0
    m = mapping(fn, ref)
    if not m:
        return 0
    byname = {}
    for (nm, ln), new in m.items():
        byname.setdefault(nm, {})[ln] = new
    for d in local_entries(fn):
        new = byname.get(d["n"], {}).get(d.get("l"))
        if new:
            d["n0"] = d["n"]
            d["n"] = new
    for part in (fn.get("inits"), fn.get("body")):
        if part is None:
            continue
        for n in _walk(part):
            if n.get("k") == "Ref" and n.get("d") in ("Var", "Parm") and n.get("n") in byname:
                new = byname[n["n"]].get(n.get("dl"))
                if new:
                    n["n0"] = n["n"]
                    n["n"] = new
            elif n.get("k") == "Lambda":
                for c in n.get("caps") or []:
                    if isinstance(c, dict) and c.get("n") in byname and len(byname[c["n"]]) == 1:
                        c["n"] = list(byname[c["n"]].values())[0]
    fn["renamed_locals"] = {"%s@%s" % k: v for k, v in m.items()}
    return len(m)
