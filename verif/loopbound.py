"""Canonical counting loops over a sequence: for (i = ..; i OP <bound of C>; ++i) { ... C[i + m] ... }.

The bound is C.size() +/- a constant (possibly behind a cast, or a local that is initialised from it and never written
again); the subscript is operator[] (unchecked) on the same sequence C with index i + m.  In the last iteration the
index is bound - 1 + m for `<` (`!=`) and bound + m for `<=`; the access is in range iff that is at most size - 1.
A loop whose body tests the index against the size before the subscript (any condition naming both i and C) is left
undecided: the analysis reports only what is out of range on the straight path.

analyse(fn) -> list of (loop line, container text, index var, op, bound offset, [(line, m, in_range, guarded)])"""
import re

from verif.tree import decast, show, strip, walk
from verif.cow import parent_map


def _const_off(e):
    """(base expr, integer offset) for e = base, base + k, base - k"""
    e = decast(e)
    if e.get("k") == "Bin" and e.get("op") in ("+", "-") and not e.get("asg"):
        a, b = decast(e["c"][0]), decast(e["c"][1])
        if b.get("k") == "Int":
            base, off = _const_off(a)
            return base, off + (int(b["v"]) if e["op"] == "+" else -int(b["v"]))
        if a.get("k") == "Int" and e["op"] == "+":
            base, off = _const_off(b)
            return base, off + int(a["v"])
    return e, 0


def _size_of(e):
    """text of C if e is C.size() / C.length(), else None"""
    e = decast(e)
    if e.get("k") == "MCall" and e.get("m") in ("size", "length") and not e.get("a") and e.get("obj") is not None:
        cls = e.get("cls") or ""
        if cls in ("std::vector", "std::basic_string", "std::array", "std::deque", "std::basic_string_view"):
            return show(strip(e["obj"]))
    return None


def analyse(fn):
    body = fn["body"]
    par = parent_map(fn)
    # locals initialised from C.size() (+/- k) and never assigned afterwards
    written = set()
    for n in walk(body):
        if n.get("k") == "Bin" and n.get("asg"):
            t = decast(n["c"][0])
            if t.get("k") == "Ref":
                written.add((t["n"], t.get("dl")))
        if n.get("k") == "Un" and ("++" in (n.get("op") or "") or "--" in (n.get("op") or "")):
            t = decast(n["c"][0])
            if t.get("k") == "Ref":
                written.add((t["n"], t.get("dl")))
    size_locals = {}
    for n in walk(body):
        if n.get("k") == "Decl":
            for v in n["vars"]:
                if isinstance(v.get("init"), dict) and (v["n"], v.get("l")) not in written and not v.get("ref"):
                    base, off = _const_off(v["init"])
                    c = _size_of(base)
                    if c is not None:
                        size_locals[(v["n"], v.get("l"))] = (c, off)
    out = []
    for lp in walk(body):
        if lp.get("k") != "For" or not isinstance(lp.get("cond"), dict):
            continue
        c = strip(lp["cond"])
        if c.get("k") != "Bin" or c.get("op") not in ("<", "<=", "!="):
            continue
        iv = decast(c["c"][0])
        if iv.get("k") != "Ref" or iv.get("d") != "Var":
            continue
        base, boff = _const_off(c["c"][1])
        cont = _size_of(base)
        if cont is None and base.get("k") == "Ref" and (base.get("n"), base.get("dl")) in size_locals:
            cont, off0 = size_locals[(base["n"], base["dl"])]
            boff += off0
        if cont is None:
            continue
        # the induction variable only moves up by one per iteration
        inc = strip(lp.get("inc") or {})
        if not (inc.get("k") == "Un" and "++" in (inc.get("op") or "") and decast(inc["c"][0]).get("n") == iv["n"]):
            continue
        if any(n.get("k") in ("Bin", "Un") and (n.get("asg") or n.get("k") == "Un" and ("++" in (n.get("op") or "") or "--" in (n.get("op") or "")))
               and decast(n["c"][0]).get("k") == "Ref" and decast(n["c"][0]).get("n") == iv["n"] for n in walk(lp["body"])):
            continue
        # the sequence is not resized in the body
        if any(n.get("k") == "MCall" and n.get("m") in ("push_back", "emplace_back", "pop_back", "erase", "clear", "resize", "insert", "assign")
               and show(strip(n.get("obj") or {})) == cont for n in walk(lp["body"])):
            continue
        subs = []
        for n in walk(lp["body"]):
            el = None
            if n.get("k") == "OpCall" and n.get("op") == "[]" and len(n.get("a") or []) == 2:
                el = (strip(n["a"][0]), n["a"][1])
            elif n.get("k") == "Idx":
                el = (strip(n["c"][0]), n["c"][1])
            if el is None or show(el[0]) != cont:
                continue
            ib, m = _const_off(el[1])
            if ib.get("k") != "Ref" or ib.get("n") != iv["n"] or ib.get("dl") != iv.get("dl"):
                continue
            # guarded: an enclosing / preceding condition inside the loop body names the index variable
            guarded = False
            cur = n
            while id(cur) in par and par[id(cur)] is not lp:
                p = par[id(cur)]
                if p.get("k") in ("If", "Cond", "While", "For") or (p.get("k") == "Bin" and p.get("op") in ("&&", "||")):
                    ctext = show(p.get("cond") or (p["c"][0] if p.get("c") else {}))
                    if re.search(r"\b%s\b" % re.escape(iv["n"]), ctext):
                        guarded = True
                cur = p
            if not guarded:
                # an earlier statement of the loop body that leaves the iteration under a test of the index
                for s in walk(lp["body"]):
                    if s.get("k") == "If" and (s.get("l") or 0) <= (n.get("l") or 0) and isinstance(s.get("cond"), dict) \
                            and re.search(r"\b%s\b" % re.escape(iv["n"]), show(s["cond"])) and any(x.get("k") in ("Break", "Continue", "Return", "Throw") for x in walk(s["then"])):
                        guarded = True
            last = boff + m - (1 if c["op"] in ("<", "!=") else 0)      # index in the last iteration, relative to size
            subs.append((n.get("l"), m, last <= -1, guarded))
        if subs:
            out.append((lp.get("l"), cont, iv["n"], c["op"], boff, subs))
    return out
