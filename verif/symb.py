"""Symbolic value of locals at the end of a structured, loop-free statement list (no execution: terms only).

  Sym(leaf)              maps a leaf expression (Ref to a parameter, std::get<k>(tuple), a constant, ...) to a term
  value_of(stmts, name)  the term held by local `name` after the statements, with
                           x = e            -> term(e)
                           x += e / x++     -> add(x, e) / add(x, 1)
                           if (c) S         -> for every local assigned in S:  cond(c, value in S, value before)
                           if (c) S else T  -> cond(c, value in S, value in T)
Terms are nested tuples in a normal form: ('add', sorted operands), ('mul', sorted operands), ('div', a, b), ('mod', a, b),
('sub', a, b), ('gt'|'ge'|'lt'|'le'|'eq'|'ne', a, b), ('cond', c, a, b), ('int', n), ('sym', name).  Commutative operands are
flattened and sorted, so the form does not depend on operand order or on temporaries.
Statements that are not assignments to tracked locals (calls, throws) are skipped; a loop makes the analysis give up (None)."""
from verif.tree import strip, stmt_list, walk


def add(*xs):
    out = []
    for x in xs:
        if x[0] == "add":
            out += list(x[1])
        else:
            out.append(x)
    consts = sum(x[1] for x in out if x[0] == "int")
    rest = [x for x in out if x[0] != "int"]
    if consts or not rest:
        rest.append(("int", consts))
    if len(rest) == 1:
        return rest[0]
    return ("add", tuple(sorted(rest, key=repr)))


def mul(*xs):
    out = []
    for x in xs:
        if x[0] == "mul":
            out += list(x[1])
        else:
            out.append(x)
    # distribute over sums: polynomial normal form
    for i, x in enumerate(out):
        if x[0] == "add":
            rest = out[:i] + out[i + 1:]
            return add(*[mul(t, *rest) for t in x[1]])
    prod = 1
    for x in out:
        if x[0] == "int":
            prod *= x[1]
    rest = [x for x in out if x[0] != "int"]
    if prod == 0:
        return ("int", 0)
    if not rest:
        return ("int", prod)
    if prod != 1:
        rest.append(("int", prod))
    if len(rest) == 1:
        return rest[0]
    return ("mul", tuple(sorted(rest, key=repr)))


def I(n):
    return ("int", n)


def S(name):
    return ("sym", name)


def div(a, b):
    return ("div", a, b)


def mod(a, b):
    return ("mod", a, b)


def sub(a, b):
    return add(a, mul(I(-1), b))


def gt(a, b):
    return ("gt", a, b)


def cond(c, a, b):
    if c is not None and c[0] == "int":
        return a if c[1] else b
    return a if a == b else ("cond", c, a, b)


def as_ratio(t):
    """(numerator, denominator) of a term read as a rational function: sums, products and quotients are combined, every
    other term is an indeterminate.  Two terms denote the same rational function iff num1*den2 == num2*den1 in the
    polynomial normal form of mul/add."""
    if t is None:
        return None
    k = t[0]
    if k == "add":
        n, d = I(0), I(1)
        for x in t[1]:
            r = as_ratio(x)
            if r is None:
                return None
            n, d = add(mul(n, r[1]), mul(r[0], d)), mul(d, r[1])
        return n, d
    if k == "mul":
        n, d = I(1), I(1)
        for x in t[1]:
            r = as_ratio(x)
            if r is None:
                return None
            n, d = mul(n, r[0]), mul(d, r[1])
        return n, d
    if k == "div":
        a, b = as_ratio(t[1]), as_ratio(t[2])
        if a is None or b is None:
            return None
        return mul(a[0], b[1]), mul(a[1], b[0])
    return t, I(1)


def same_ratio(a, b):
    ra, rb = as_ratio(a), as_ratio(b)
    if ra is None or rb is None:
        return False
    return mul(ra[0], rb[1]) == mul(rb[0], ra[1])


CMP = {">": "gt", ">=": "ge", "<": "lt", "<=": "le", "==": "eq", "!=": "ne"}


class Eval:
    def __init__(self, leaf, locals_):
        self.leaf = leaf            # function(expr node) -> term or None
        self.locals = set(locals_)  # names of the locals that are tracked
        self.gave_up = None

    def term(self, e, env):
        e = strip(e)
        k = e.get("k")
        t = self.leaf(e)
        if t is not None:
            return t
        if k == "Int":
            return I(int(e["v"]))
        if k == "Flt":
            v = float(e["v"])
            return I(int(v)) if v == int(v) else S(repr(v))
        if k == "Un" and e.get("op") in ("-", "+") and e.get("c"):
            t_ = self.term(e["c"][0], env)
            if t_ is None:
                return None
            return mul(I(-1), t_) if e["op"] == "-" else t_
        if k == "Ref" and e.get("n") in env:
            return env[e["n"]]
        el = self.element(e, env)
        if el is not None:
            return env.get(el, S("?" + el))
        if k == "Ref" and "ev" in e:
            return I(int(e["ev"]))
        if k == "OpCall" and e.get("op") in ("+", "-", "*", "/", "%", "<", ">", "<=", ">=", "==", "!=") and len(e.get("a") or []) == 2 and "callee" in e and (e["callee"] or {}).get("k") == "ULookup":
            # an operator in a template whose operand types are not known yet: the built-in arithmetic meaning is assumed
            e = {"k": "Bin", "op": e["op"], "c": e["a"]}
            k = "Bin"
        elif k == "OpCall" and e.get("op") in ("-", "+") and len(e.get("a") or []) == 1 and "callee" in e and (e["callee"] or {}).get("k") == "ULookup":
            t_ = self.term(e["a"][0], env)
            return None if t_ is None else (mul(I(-1), t_) if e["op"] == "-" else t_)
        if k == "Bin" and not e.get("asg"):
            a, b = self.term(e["c"][0], env), self.term(e["c"][1], env)
            if a is None or b is None:
                return None
            op = e["op"]
            if op == "+":
                return add(a, b)
            if op == "*":
                return mul(a, b)
            if op == "-":
                return sub(a, b)
            if op == "/":
                return div(a, b)
            if op == "%":
                return mod(a, b)
            if op in CMP:
                if op in ("<", "<="):
                    return ({"<": "gt", "<=": "ge"}[op], b, a)
                return (CMP[op], a, b)
            if op in ("&&", "||"):
                return ({"&&": "and", "||": "or"}[op], a, b)
        if k == "Cond":
            c, a, b = (self.term(x, env) for x in e["c"])
            if None in (c, a, b):
                return None
            return cond(c, a, b)
        if k == "Ref":
            return S("?" + e.get("n", ""))
        return None

    def element(self, e, env=None):
        """'name[k]' for a constant-index element of a tracked local array, else None"""
        e = strip(e)
        base = idx = None
        if e.get("k") == "Idx":
            base, idx = strip(e["c"][0]), strip(e["c"][1])
        elif e.get("k") == "OpCall" and e.get("op") == "[]" and len(e.get("a") or []) == 2:
            base, idx = strip(e["a"][0]), strip(e["a"][1])
        if base is not None and base.get("k") == "Ref" and base.get("n") in self.locals:
            if idx.get("k") == "Int":
                return "%s[%d]" % (base["n"], int(idx["v"]))
            if env is not None:
                t = self.term(idx, env)
                if t is not None and t[0] == "int":
                    return "%s[%d]" % (base["n"], t[1])
        return None

    def run(self, stmts, env):
        """Evaluate a statement list; returns the environment afterwards (a new dict)."""
        env = dict(env)
        for st in stmts:
            k = st["k"]
            if k == "Decl":
                for v in st["vars"]:
                    if v["n"] in self.locals:
                        env[v["n"]] = self.term(v["init"], env) if isinstance(v.get("init"), dict) else S("uninit:" + v["n"])
            elif k == "Bin" and st.get("asg") and (self.element(st["c"][0], env) or (strip(st["c"][0]).get("k") == "Ref" and strip(st["c"][0])["n"] in self.locals)):
                nm = self.element(st["c"][0], env) or strip(st["c"][0])["n"]
                rhs = self.term(st["c"][1], env)
                if st["op"] == "=":
                    env[nm] = rhs
                elif st["op"] == "+=" and env.get(nm) is not None and rhs is not None:
                    env[nm] = add(env[nm], rhs)
                elif st["op"] == "-=" and env.get(nm) is not None and rhs is not None:
                    env[nm] = sub(env[nm], rhs)
                elif st["op"] == "*=" and env.get(nm) is not None and rhs is not None:
                    env[nm] = mul(env[nm], rhs)
                elif st["op"] == "/=" and env.get(nm) is not None and rhs is not None:
                    env[nm] = div(env[nm], rhs)
                elif st["op"] == "%=" and env.get(nm) is not None and rhs is not None:
                    env[nm] = mod(env[nm], rhs)
                else:
                    env[nm] = None
            elif k == "Un" and strip(st["c"][0]).get("k") == "Ref" and strip(st["c"][0])["n"] in self.locals and ("++" in (st.get("op") or "") or "--" in (st.get("op") or "")):
                nm = strip(st["c"][0])["n"]
                if env.get(nm) is not None:
                    env[nm] = add(env[nm], I(1)) if "++" in st["op"] else sub(env[nm], I(1))
            elif k == "If":
                c = self.term(st["cond"], env) if isinstance(st.get("cond"), dict) else None
                e1 = self.run(stmt_list(st["then"]), env)
                e2 = self.run(stmt_list(st["else"]), env) if st.get("else") is not None else env
                for nm in set(e1) | set(e2):
                    if nm in env or (nm in e1 and nm in e2):
                        a, b = e1.get(nm, env.get(nm)), e2.get(nm, env.get(nm))
                        if a == b:
                            env[nm] = a
                        elif c is None or a is None or b is None:
                            env[nm] = None
                        else:
                            env[nm] = cond(c, a, b)
            elif k == "Block":
                inner = self.run(stmt_list(st), env)
                for nm in env:
                    env[nm] = inner.get(nm, env[nm])
            elif k in ("For", "While", "ForRange", "Do"):
                assigned = {strip(x["c"][0]).get("n") for x in walk(st) if x["k"] in ("Bin", "Un") and x.get("c") and (x.get("asg") or x["k"] == "Un")}
                for nm in assigned & set(env):
                    env[nm] = None
                self.gave_up = st.get("l")
        return env


def show_term(t):
    if t is None:
        return "?"
    k = t[0]
    if k == "int":
        return str(t[1])
    if k == "sym":
        return t[1]
    if k in ("add", "mul"):
        return "(" + (" + " if k == "add" else " * ").join(show_term(x) for x in t[1]) + ")"
    if k in ("div", "mod", "sub"):
        return "(%s %s %s)" % (show_term(t[1]), {"div": "/", "mod": "%", "sub": "-"}[k], show_term(t[2]))
    if k in ("gt", "ge", "lt", "le", "eq", "ne", "and", "or"):
        return "(%s %s %s)" % (show_term(t[1]), {"gt": ">", "ge": ">=", "lt": "<", "le": "<=", "eq": "==", "ne": "!=", "and": "&&", "or": "||"}[k], show_term(t[2]))
    if k == "cond":
        return "(%s ? %s : %s)" % (show_term(t[1]), show_term(t[2]), show_term(t[3]))
    return repr(t)
