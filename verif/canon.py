"""Canonical expression terms: commutative operands sorted, lambdas reduced to their returned expression."""
from verif.tree import strip, show, walk


def canon(e, names=None):
    names = names or {}
    e = strip(e)
    k = e["k"]
    if k == "Ref":
        v = names.get(e["n"], e["n"])
        return canon(v, names) if isinstance(v, dict) else v
    if k == "Un" and e.get("c"):
        return "%s(%s)" % ({"*": "deref", "-": "neg", "!": "not"}.get(e.get("op"), "un" + str(e.get("op"))), canon(e["c"][0], names))
    if k in ("InitList",) and not (e.get("c") or e.get("a")):
        return (e.get("t") or "{}").replace("std::", "").split("<")[0]
    if k == "Int":
        return str(e["v"])
    if k == "Flt":
        v = float(e["v"])
        return str(int(v)) if v == int(v) else repr(v)
    if k == "Bin" and e.get("op") in ("+", "*") and not e.get("asg"):
        ops = []

        def flat(x):
            x = strip(x)
            if x["k"] == "Bin" and x.get("op") == e["op"] and not x.get("asg"):
                flat(x["c"][0])
                flat(x["c"][1])
            else:
                ops.append(canon(x, names))
        flat(e)
        return "%s(%s)" % ("add" if e["op"] == "+" else "mul", ",".join(sorted(ops)))
    if k == "Bin" and e.get("op") in ("-", "/") and not e.get("asg"):
        return "%s(%s,%s)" % ("sub" if e["op"] == "-" else "div", canon(e["c"][0], names), canon(e["c"][1], names))
    if k == "OpCall" and len(e.get("a", [])) == 1 and e.get("op") in ("*", "-", "!"):
        return "%s(%s)" % ({"*": "deref", "-": "neg", "!": "not"}[e["op"]], canon(e["a"][0], names))
    if k == "OpCall" and len(e.get("a", [])) == 2 and e.get("op") in ("+", "*", "-", "/"):
        return canon({"k": "Bin", "op": e["op"], "c": e["a"]}, names)
    if k in ("Cast", "InitList", "Ctor") and "multiplies" in (e.get("t") or "") + show(e):
        return "multiplies"
    if k == "Lambda":
        ps = [p["n"] for p in e.get("params", [])]
        n2 = dict(names)
        for i, p in enumerate(ps):
            n2[p] = "$%d" % i
        rets = [x for x in walk(e["body"]) if x["k"] == "Return"]
        if len(rets) == 1 and rets[0].get("e") is not None:
            return "lambda(%s)" % canon(rets[0]["e"], n2)
        return "lambda(?)"
    if k in ("Call", "MCall"):
        fn = (e.get("fn") or e.get("m") or "").replace("std::", "").split("<")[0]
        if k == "MCall":
            fn = e.get("m") or fn
            obj = canon(e["obj"], names) if isinstance(e.get("obj"), dict) else "this"
            args = [canon(a, names) for a in e.get("a", []) if a.get("k") != "DefArg"]
            return "%s.%s(%s)" % (obj, fn, ",".join(args))
        args = [canon(a, names) for a in e.get("a", []) if a.get("k") != "DefArg"]
        if fn in ("min", "max"):
            args = sorted(args)
        return "%s(%s)" % (fn, ",".join(args))
    if k == "Ctor":
        kids = [a for a in e.get("a", []) if a.get("k") != "DefArg"]
        t = (e.get("t") or "").replace("std::", "").replace("const ", "")
        if len(kids) == 1:
            return canon(kids[0], names)
        if not kids:
            return t.split("<")[0]
        return "%s{%s}" % (t.split("<")[0], ",".join(canon(a, names) for a in kids))
    return "?" + show(e)
