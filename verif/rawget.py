"""Raw reads of dimensioned deck items.

DeckItem::get<double>(k) returns the number as written in the deck (deck units); getSIDouble(k) / get<UDAValue> give the
SI value.  For an item whose keyword definition carries a dimension, a raw read may only feed a comparison (`< 0`,
`== 0`: sign and zero are unit independent) - a value that is stored, passed on or used in arithmetic must be the SI
one, otherwise the stored quantity depends on the deck's unit system.

The item is resolved from the expression the read is applied to: record.getItem("NAME") / getItem<KW::NAME>() directly or
through a local reference / value initialised from it.  With the typed form the keyword is exact; with a string name the
item counts as dimensioned only if EVERY compiled-in keyword that has an item of that name gives it a dimension other
than "1" (otherwise the read is undecided and not claimed).

dims(kwroot) -> {"KW": {"ITEM": dimension}}, {"ITEM": set(dimension per keyword)}
analyse(fn, bykw, byitem) -> [(line, item, keyword or None, dimension, use, ok)]"""
import json
import os
import re

from verif.tree import decast, show, strip, walk
from verif.cow import parent_map


def _load(path):
    txt = open(path).read()
    txt = re.sub(r"(\d)\.([eE])", r"\1.0\2", txt)
    txt = re.sub(r"(\d)\.(\s*[,}\]\n])", r"\1.0\2", txt)
    return json.loads(txt, strict=False)


def dims(kwroot):
    listed = re.findall(r"^\s+(\d{3}_\w+/[A-Za-z0-9_/]+)\)?\s*$", open(os.path.join(kwroot, "keyword_list.cmake")).read(), re.M)
    bykw, byitem = {}, {}
    for rel in listed:
        d = _load(os.path.join(kwroot, rel))
        its = list(d.get("items", []))
        for rec in d.get("records", []):
            its += list(rec)
        for alt in d.get("alternating_records", []):
            its += list(alt)
        if isinstance(d.get("data"), dict):
            dd = dict(d["data"])
            dd.setdefault("name", "data")
            its.append(dd)
        for it in its:
            nm = it.get("name")
            if not nm:
                continue
            dim = it.get("dimension")
            if isinstance(dim, list):
                dim = "|".join(dim)
            dim = dim or "1"
            bykw.setdefault(d["name"], {})[nm] = dim
            byitem.setdefault(nm, set()).add(dim)
    return bykw, byitem


def _item_of(e, env):
    """(item name, keyword or None) of an expression that denotes a DeckItem"""
    e = decast(e)
    if e.get("k") == "Ref" and (e.get("n"), e.get("dl")) in env:
        return env[(e["n"], e["dl"])]
    if e.get("k") in ("MCall", "Call") and (e.get("m") == "getItem" or (e.get("fn") or "").endswith("::getItem")):
        ta = e.get("targs") or []
        if ta:
            m = re.search(r"ParserKeywords::(\w+)::(\w+)$", ta[0])
            if m:
                return m.group(2), m.group(1)
        args = [a for a in e.get("a") or [] if isinstance(a, dict)]
        if args:
            a0 = decast(args[0])
            while a0.get("k") in ("Ctor", "Temp", "Bind") and a0.get("a"):
                a0 = decast(a0["a"][0])
            if a0.get("k") == "Str":
                return a0["v"], None
    return None


def analyse(fn, bykw, byitem):
    body = fn.get("body")
    if not body:
        return []
    env = {}
    for _ in range(2):
        for n in walk(body):
            if n.get("k") == "Decl":
                for v in n["vars"]:
                    if isinstance(v.get("init"), dict) and "DeckItem" in (v.get("t") or "") + (strip(v["init"]).get("t") or ""):
                        it = _item_of(v["init"], env)
                        if it:
                            env[(v["n"], v.get("l"))] = it
    out = []
    par = None
    for n in walk(body):
        if n.get("k") != "MCall" or n.get("m") != "get" or (n.get("targs") or [""])[0] != "double" or "DeckItem" not in (n.get("fn") or "") + (n.get("cls") or ""):
            continue
        it = _item_of(n.get("obj"), env)
        if not it:
            continue
        name, kw = it
        if kw is not None:
            dim = (bykw.get(kw) or {}).get(name)
        else:
            ds = byitem.get(name) or set()
            dim = None if (not ds or "1" in ds) else "|".join(sorted(ds))
        if not dim or dim == "1":
            continue
        if par is None:
            par = parent_map(fn)
        cur = n
        use = "value"
        while id(cur) in par:
            p = par[id(cur)]
            k = p.get("k")
            if k in ("Cast", "Paren", "Temp", "Bind"):
                cur = p
                continue
            if k == "Bin" and p.get("op") in ("<", ">", "<=", ">=", "==", "!=") and not p.get("asg"):
                other = decast(p["c"][1] if p["c"][0] is cur else p["c"][0])
                lit = other.get("k") in ("Int", "Flt") and float(other.get("v")) == 0.0
                if other.get("k") == "Un" and other.get("op") == "-":
                    lit = False
                use = "compare with 0" if lit else "compare"
            elif k == "OpCall" and p.get("op") in ("<", ">", "<=", ">=", "==", "!="):
                use = "compare"
            break
        out.append((n.get("l"), name, kw, dim, use, use == "compare with 0"))
    return out


EXCEPTIONS = {
    ("handleWCONINJE", "VAPOIL_C"): "the raw number is divided by / into the SI number of the same item to obtain the conversion factor, which is then inverted for oil injectors (Rs instead of Rv): read, deliberate",
    ("handleWCONINJH", "VAPOIL_C"): "same idiom as handleWCONINJE",
}


def run(chk, prefix, floor):
    from verif import core
    r = chk.rule(prefix + ".rawget", "opm/input/eclipse/Schedule: DeckItem::get<double> (the number in deck units) applied to an item whose keyword definition carries a dimension feeds nothing but a comparison with zero; a value that is stored, passed on or used in arithmetic is read with getSIDouble / get<UDAValue> - otherwise the stored quantity depends on the deck's unit system.  The item is resolved through getItem<KW::ITEM>() or getItem(\"NAME\") (dimensioned in every keyword that has an item of that name); the two reads that derive a conversion factor are listed with their reason", floor=floor)
    kwroot = os.path.join(chk.root if os.path.isdir(os.path.join(chk.root, "opm/input/eclipse/share/keywords")) else core.REPO, "opm/input/eclipse/share/keywords")
    bykw, byitem = dims(kwroot)
    fx = chk.facts([u for u in core.library_units() if "opm/input/eclipse/Schedule/" in u])
    for f in fx.fns:
        if not f.get("body") or "/opm/input/eclipse/Schedule/" not in f["file"]:
            continue
        for line, item, kw, dim, use, ok in analyse(f, bykw, byitem):
            key = "%s:%s@%d" % (f["n"], item, line)
            chk.instance(r, key, sample=dict(function=f["q"], item=item, keyword=kw, dimension=dim, use=use))
            if not ok and (f["n"], item) not in EXCEPTIONS:
                chk.violation(r, key, "%s reads item %s%s (dimension %s) with get<double> and uses the number as a %s: it is in deck units, so the result differs between METRIC, FIELD and LAB decks; getSIDouble gives the SI value" % (f["q"], item, " of " + kw if kw else "", dim, use), f["file"], line)
