"""Call-graph helpers shared by the rules that close over entry points."""
import re

from verif.tree import walk_fn, strip

TOK = re.compile(r"[A-Za-z_][A-Za-z0-9_]*(?:::[A-Za-z_][A-Za-z0-9_]*)*")
BUILTIN = ("const", "unsigned", "int", "double", "float", "char", "bool", "long", "size_t")


def hidden_constructors(fns):
    """Constructors that run inside standard-library templates (emplace_back, make_shared, ...) are not resolved callees of the
    calling function.  Returns {caller q: {constructor q, ...}} from the element / template type; an ambiguous short class
    name adds every candidate (over-approximation)."""
    classes = {f["cls"] for f in fns if f.get("cls") and f.get("ctor")}
    by_short = {}
    for c in classes:
        parts = c.split("::")
        for i in range(len(parts)):
            by_short.setdefault("::".join(parts[i:]), set()).add(c)

    def class_tokens(text):
        inner = text[text.find("<") + 1:] if "<" in text else text
        out = []
        for t in TOK.findall(inner):
            if t.startswith("std::") or t in BUILTIN:
                continue
            out += sorted(by_short.get(t, ()))
        return out
    hidden = {}
    for f in fns:
        if not f.get("body"):
            continue
        extra = set()
        for n in walk_fn(f):
            types = []
            if n["k"] == "MCall" and n.get("m") in ("emplace_back", "emplace", "try_emplace", "emplace_front", "insert_or_assign") and isinstance(n.get("obj"), dict):
                types = class_tokens((strip(n["obj"]).get("t") or ""))
            elif n["k"] == "Call" and (n.get("fn") or "").split("<")[0] in ("std::make_shared", "std::make_unique", "std::make_optional") and n.get("targs"):
                types = class_tokens("<" + n["targs"][0])
            for t in types:
                extra.add(t + "::" + t.split("::")[-1])
        if extra:
            hidden[f["q"]] = extra
    return hidden
