"""./check <property> [--tier quick|thorough] [--replay report.json]"""
import argparse
import importlib
import json
import os
import sys
import traceback

from . import core


def main():
    ap = argparse.ArgumentParser()
    ap.add_argument("pid")
    ap.add_argument("--tier", default=os.environ.get("VERIF_TIER", "quick"), choices=["quick", "thorough"])
    ap.add_argument("--replay", default=None, help="print a stored report and re-run the rule")
    ap.add_argument("--root", default=None, help="analyse a scratch copy of the source tree instead of /repo")
    a = ap.parse_args()
    if a.root:
        os.environ["VERIF_ROOT"] = os.path.abspath(a.root)
    if a.replay and os.path.exists(a.replay):
        print(open(a.replay).read())
    mod = importlib.import_module("rules." + a.pid)
    chk = core.Check(a.pid, a.tier, level=getattr(mod, "LEVEL", "other"))
    try:
        mod.run(chk)
    except core.AnalysisBroken as e:
        chk.fail_broken(str(e))
    except Exception as e:  # a bug in a rule module is an analysis failure, never a verdict
        traceback.print_exc()
        chk.fail_broken("internal error in rule module: %r" % (e,))
    rc = chk.finish()
    core.prune_cache()
    sys.exit(rc)


if __name__ == "__main__":
    main()
