"""Core plumbing: compilation flags, fact extraction (cached, parallel), verdict
protocol, evidence and report writers.

Nothing in here runs code of the repository under analysis; it only parses it.
"""
import concurrent.futures
import glob
import hashlib
import json
import os
import re
import shlex
import subprocess
import threading
import sys
from . import refnames
import time

VERIF = os.path.dirname(os.path.dirname(os.path.abspath(__file__)))
REPO = os.environ.get("VERIF_REPO", "/repo")
BUILD = os.path.join(REPO, "_build")
OPMFACTS = os.path.join(VERIF, "bin", "opmfacts")
CACHE = os.environ.get("VERIF_CACHE", os.path.join(VERIF, ".cache"))
NCPU = int(os.environ.get("VERIF_JOBS", os.cpu_count() or 4))

FALLBACK_FLAGS = [
    "-DBOOST_SYSTEM_DYN_LINK", "-DBOOST_SYSTEM_NO_LIB", "-DFMT_SHARED", "-DHAVE_CONFIG_H=1",
    "-I/repo/_build", "-I/repo/_build/include", "-I/repo", "-I/usr/include/cjson",
    "-isystem", "/root/miniconda/include",
]


class AnalysisBroken(Exception):
    """An anchor vanished, a unit failed to parse or a rule matched fewer instances than
    its floor.  Never a pass and never a violation (exit 2)."""


_resource_dir = None


def resource_dir():
    global _resource_dir
    if _resource_dir is None:
        _resource_dir = subprocess.check_output(["clang++", "-print-resource-dir"], text=True).strip()
    return _resource_dir


_compdb = None


def compdb():
    """file -> list of flags (without compiler, -o, -c, -M*), from ninja's database."""
    global _compdb
    if _compdb is not None:
        return _compdb
    db = {}
    try:
        out = subprocess.check_output(["ninja", "-C", BUILD, "-t", "compdb"], stderr=subprocess.DEVNULL, text=True)
        entries = json.loads(out)
    except Exception:
        entries = []
    for e in entries:
        f = e["file"]
        if not f.endswith((".cpp", ".cc", ".c")):
            continue
        if not os.path.isabs(f):
            f = os.path.normpath(os.path.join(e["directory"], f))
        # prefer the opmcommon target's flags (-fPIC) over genkw's; they are otherwise identical
        if f in db and "opmcommon.dir" not in e["command"]:
            continue
        toks = shlex.split(e["command"])[1:]
        flags = []
        skip = 0
        for i, t in enumerate(toks):
            if skip:
                skip -= 1
                continue
            if t in ("-o", "-MT", "-MF"):
                skip = 1
                continue
            if t in ("-c", "-MD", "-MMD", "-pipe", "-pthread") or t.startswith(("-mtune", "-O", "-g", "-W", "-std=")):
                continue
            if t == f or t.endswith(os.path.basename(f)) and not t.startswith("-"):
                continue
            flags.append(t)
        db[f] = flags
    _compdb = db
    return db


def unit_flags(unit, root=None):
    db = compdb()
    flags = list(db.get(unit, FALLBACK_FLAGS))
    # gcc-only __float128 instantiations (HAVE_QUAD) are not parseable by clang 14: analysed without them
    flags = [f for f in flags if f not in ("-DNDEBUG", "-DHAVE_QUAD=1", "-D_GLIBCXX_USE_FLOAT128", "-fext-numeric-literals")]
    flags += ["-std=gnu++17", "-fopenmp", "-UNDEBUG", "-Wno-everything", "-resource-dir", resource_dir()]
    # <quadmath.h> (HAVE_QUAD) ships with gcc only; make it findable after everything else
    for d in sorted(glob.glob("/usr/lib/gcc/x86_64-linux-gnu/*/include")):
        if os.path.exists(os.path.join(d, "quadmath.h")):
            flags += ["-idirafter", d]
            break
    if root and root != REPO:
        # an alternative source root (scratch copy with only opm/ etc.): look there first,
        # keep the real tree for generated headers and anything not copied.
        flags = ["-I" + root] + flags
    return flags


def library_units():
    """All translation units of libopmcommon under <REPO>/opm, from the compilation database."""
    db = compdb()
    us = sorted(u for u in db if u.startswith(os.path.join(REPO, "opm") + "/"))
    if not us:
        us = sorted(glob.glob(os.path.join(REPO, "opm", "**", "*.cpp"), recursive=True))
    return us


_tree_hash = {}


def tree_hash(root=None):
    """Content hash of every source the analysis can see.  Used as cache key so that a cache
    hit always reflects the current working tree."""
    root = root or REPO
    if root in _tree_hash:
        return _tree_hash[root]
    h = hashlib.sha1()
    roots = [os.path.join(root, d) for d in ("opm", "tests", "msim", "examples", "python/cxx")]
    roots += [os.path.join(BUILD, "include"), os.path.join(BUILD, "config.h")]
    files = []
    for r in roots:
        if os.path.isfile(r):
            files.append(r)
            continue
        for dp, dn, fn in os.walk(r):
            for f in fn:
                if f.endswith((".cpp", ".hpp", ".h", ".cc", ".c", ".inc")):
                    files.append(os.path.join(dp, f))
    files.sort()
    for f in files:
        h.update(f.encode())
        try:
            with open(f, "rb") as fh:
                h.update(hashlib.sha1(fh.read()).digest())
        except OSError:
            h.update(b"?")
    try:
        st = os.stat(OPMFACTS)
        h.update(("%d-%d" % (st.st_size, st.st_mtime_ns)).encode())
    except OSError:
        pass
    _tree_hash[root] = h.hexdigest()
    return _tree_hash[root]


def _extract_one(unit, src, flags, files_re, fn_re, no_body, out, rest_light=False):
    tmp = "%s.%d.%d.tmp" % (out, os.getpid(), threading.get_ident())
    cmd = [OPMFACTS, "--out", tmp]
    if files_re:
        cmd += ["--files", files_re]
    if fn_re:
        cmd += ["--fn", fn_re]
    if no_body:
        cmd += ["--no-body"]
    if rest_light:
        cmd += ["--rest-light"]
    cmd += [src, "--", "clang++"] + flags
    p = subprocess.run(cmd, stdout=subprocess.PIPE, stderr=subprocess.PIPE, text=True)
    if p.returncode != 0 or not os.path.exists(tmp):
        if os.path.exists(tmp):
            os.remove(tmp)
        if os.path.exists(out):       # another process running the same check produced it meanwhile
            return unit, True, ""
        return unit, False, ("exit %s " % p.returncode) + (p.stderr or "")[-2000:]
    # the cache holds /repo paths whatever root was analysed, so that an entry can be shared between roots
    rt = os.environ.get("VERIF_ROOT")
    if rt and rt != REPO:
        with open(tmp, "r", encoding="utf-8", errors="surrogateescape") as fh:
            txt = fh.read()
        if rt + "/" in txt:
            with open(tmp, "w", encoding="utf-8", errors="surrogateescape") as fh:
                fh.write(txt.replace(rt + "/", REPO + "/"))
    os.replace(tmp, out)
    return unit, True, ""


class Facts:
    """Entities extracted from a set of units, de-duplicated on (kind, qualified name, file, line)."""

    def __init__(self):
        self.fns = []
        self.recs = {}
        self.enums = {}
        self.vars = []
        self.units = []
        self._seen = set()
        self._fn_index = None

    def add_file(self, unit, path, root):
        n = 0
        with open(path) as fh:
            for line in fh:
                o = json.loads(line)
                e = o.get("e")
                if e == "unit":
                    if o.get("errors"):
                        raise AnalysisBroken("unit %s parsed with %d errors" % (unit, o["errors"]))
                    continue
                if root and root != REPO and o.get("file", "").startswith(root):
                    o["file"] = REPO + o["file"][len(root):]
                key = (e, o.get("q"), o.get("file"), o.get("l"), o.get("sig"))
                if key in self._seen:
                    continue
                self._seen.add(key)
                o["unit"] = unit
                n += 1
                if e == "fn":
                    if o.get("body") or o.get("inits"):
                        refnames.normalise(o)
                        refnames.canonical_equalities(o)
                        refnames.canonical_compound(o)
                        refnames.canonical_emplace(o)
                        refnames.canonical_if(o)
                    self.fns.append(o)
                elif e == "rec":
                    # keep the definition with most fields (there is only one per q unless templates/specs)
                    k = o["q"] if not o.get("spec") else o.get("spec_t", o["q"])
                    self.recs.setdefault(k, o)
                elif e == "enum":
                    self.enums.setdefault(o["q"], o)
                elif e == "var":
                    self.vars.append(o)
        self.units.append(unit)
        self._fn_index = None
        return n

    def fn(self, q, file_suffix=None):
        """All definitions with qualified name q (overloads)."""
        if self._fn_index is None:
            self._fn_index = {}
            for f in self.fns:
                self._fn_index.setdefault(f["q"], []).append(f)
        r = self._fn_index.get(q, [])
        if file_suffix:
            r = [f for f in r if f["file"].endswith(file_suffix)]
        TOUCHED.update((f["q"], f["file"], f["l"], f.get("l_end")) for f in r)
        return r

    def fn1(self, q, **kw):
        """Exactly one definition, else analysis is broken (anchor vanished or became ambiguous)."""
        sig = kw.pop("sig", None)
        r = self.fn(q, **kw)
        if sig:
            r = [f for f in r if re.search(sig, f["sig"])]
        if len(r) != 1:
            raise AnalysisBroken("anchor function %s%s: expected exactly 1 definition, found %d" % (q, " /" + sig + "/" if sig else "", len(r)))
        return r[0]

    def fns_matching(self, rx):
        r = re.compile(rx)
        return [f for f in self.fns if r.search(f["q"])]

    def var1(self, q_suffix, file_suffix=None):
        r = [v for v in self.vars if v["q"].endswith(q_suffix) and (not file_suffix or v["file"].endswith(file_suffix))]
        if len(r) != 1:
            raise AnalysisBroken("anchor variable %s: expected exactly 1 definition, found %d" % (q_suffix, len(r)))
        return r[0]

    def rec1(self, q):
        if q not in self.recs:
            raise AnalysisBroken("anchor record %s not found" % q)
        return self.recs[q]

    def enum1(self, q):
        if q not in self.enums:
            raise AnalysisBroken("anchor enum %s not found" % q)
        return self.enums[q]


_headers_hash = {}


def headers_hash(root=None):
    """Content hash, by path relative to the source root, of everything a unit can #include: headers and .inc files under the
    analysed root (falling back to /repo for directories a scratch copy does not carry) and the build's generated includes.
    Together with the unit's own text it keys the cache, so that editing one .cpp re-extracts one unit, editing a header all."""
    root = root or REPO
    if root in _headers_hash:
        return _headers_hash[root]
    h = hashlib.sha1()
    entries = []
    seen = {}
    for d in ("opm", "tests", "msim", "examples", "python/cxx"):
        # a scratch root is searched first (-I<root>) and /repo afterwards: what the root lacks is found in /repo
        for base in ([os.path.join(REPO, d)] + ([os.path.join(root, d)] if root != REPO else [])):
            for dp, dn, fn in os.walk(base):
                for f in fn:
                    if f.endswith((".hpp", ".h", ".inc", ".hh")):
                        full = os.path.join(dp, f)
                        seen[os.path.join(d, os.path.relpath(full, base))] = full
    entries += list(seen.items())
    for extra in (os.path.join(BUILD, "include"), os.path.join(BUILD, "config.h")):
        if os.path.isfile(extra):
            entries.append(("_build/" + os.path.basename(extra), extra))
        else:
            for dp, dn, fn in os.walk(extra):
                for f in fn:
                    full = os.path.join(dp, f)
                    entries.append(("_build/include/" + os.path.relpath(full, extra), full))
    for rel, full in sorted(entries):
        h.update(rel.encode())
        try:
            with open(full, "rb") as fh:
                h.update(hashlib.sha1(fh.read()).digest())
        except OSError:
            h.update(b"?")
    _headers_hash[root] = h.hexdigest()
    return _headers_hash[root]


def _file_sha(path):
    try:
        with open(path, "rb") as fh:
            return hashlib.sha1(fh.read()).hexdigest()
    except OSError:
        return "?"


_extractor_version = None


def extractor_version():
    """hash of the extractor's source: facts cached by an older extractor are not reused"""
    global _extractor_version
    if _extractor_version is None:
        try:
            with open(os.path.join(VERIF, "tool", "opmfacts.cc"), "rb") as fh:
                _extractor_version = hashlib.sha1(fh.read()).hexdigest()[:12]
        except OSError:
            _extractor_version = "?"
    return _extractor_version


def extract(units, files_re=None, fn_re=None, no_body=False, root=None, rest_light=False):
    """Run opmfacts on every unit (paths relative to the repository root or absolute under REPO)."""
    if not os.path.exists(OPMFACTS):
        raise AnalysisBroken("bin/opmfacts not built (run tool/build.sh)")
    root = root or os.environ.get("VERIF_ROOT") or REPO
    hh = headers_hash(root)
    os.makedirs(CACHE, exist_ok=True)
    jobs = []
    outs = []
    for u in units:
        unit = u if os.path.isabs(u) else os.path.join(REPO, u)
        rel = os.path.relpath(unit, REPO)
        src = os.path.join(root, rel) if root != REPO and os.path.exists(os.path.join(root, rel)) else unit
        if not os.path.exists(src):
            raise AnalysisBroken("anchor unit %s does not exist" % rel)
        key = hashlib.sha1(json.dumps([hh, rel, _file_sha(src), files_re, fn_re, no_body, rest_light, extractor_version(), sorted(unit_flags(unit, None))]).encode()).hexdigest()[:24]
        out = os.path.join(CACHE, key + ".jsonl")
        outs.append((unit, out))
        if not os.path.exists(out):
            fr = files_re
            if fr and root != REPO:
                fr = fr.replace(REPO + "/", "(" + re.escape(REPO) + "|" + re.escape(root) + ")/")
            jobs.append((unit, src, unit_flags(unit, root), fr, fn_re, no_body, out, rest_light))
    if jobs:
        with concurrent.futures.ThreadPoolExecutor(max_workers=NCPU) as ex:
            for unit, ok, err in ex.map(lambda a: _extract_one(*a), jobs):
                if not ok:
                    raise AnalysisBroken("opmfacts failed on %s: %s" % (unit, err))
    facts = Facts()
    for unit, out in outs:
        facts.add_file(unit, out, root)
    facts.extracted = len(jobs)
    return facts


def prune_cache(max_files=16000):
    try:
        fs = sorted((os.path.getmtime(p), p) for p in glob.glob(os.path.join(CACHE, "*.jsonl")))
    except OSError:
        return
    for _, p in fs[:-max_files] if len(fs) > max_files else []:
        try:
            os.remove(p)
        except OSError:
            pass


# --------------------------------------------------------------------------------------
# verdict protocol


class Check:
    """One run of one property's rules.  Collects rule instances, violations, known findings
    and writes evidence + reports."""

    def __init__(self, pid, tier, level="other"):
        self.pid = pid
        self.tier = tier
        self.level = level
        self.seed = int(os.environ.get("VERIF_SEED", "0") or 0)
        self.t0 = time.time()
        self.rules = {}          # rule id -> dict(instances, nontrivial, floor, samples, desc)
        self.violations = []     # dicts
        self.known_hits = []
        self.infos = []
        self.broken = []
        self.units = set()
        self.assumptions = []
        self.extra = {}
        self.root = os.environ.get("VERIF_ROOT") or REPO
        kf = os.path.join(VERIF, "known_findings.json")
        self.known = []
        if os.path.exists(kf):
            with open(kf) as fh:
                d = json.load(fh)
            self.known = [k for k in d.get("findings", []) if k.get("property") == pid]

    # -- facts
    def facts(self, units, **kw):
        f = extract(units, root=self.root, **kw)
        self.units.update(os.path.relpath(u, REPO) for u in f.units)
        return f

    # -- rules
    def rule(self, rid, desc, floor=0):
        r = self.rules.setdefault(rid, dict(desc=desc, instances=0, nontrivial=0, floor=floor, samples=[], keys=set()))
        r["floor"] = floor
        return rid

    def instance(self, rid, key, nontrivial=True, sample=None):
        r = self.rules[rid]
        if isinstance(sample, dict) and isinstance(sample.get("function"), str):
            TOUCHED_Q.add(sample["function"])
        r["instances"] += 1
        if nontrivial and key not in r["keys"]:
            r["keys"].add(key)
            r["nontrivial"] += 1
        if sample is not None and len(r["samples"]) < 4:
            r["samples"].append(sample)

    def violation(self, rid, key, msg, file=None, line=None, **detail):
        """A violated rule instance.  `key` identifies the construct independent of line numbers."""
        full = "%s:%s" % (rid, key)
        for k in self.known:
            if k.get("key") == full:
                if full not in [h["key"] for h in self.known_hits]:
                    self.known_hits.append(dict(key=full, what=k.get("what", msg)))
                return
        if file and file.startswith(self.root) and self.root != REPO:
            file = REPO + file[len(self.root):]
        self.violations.append(dict(rule=rid, key=full, message=msg, file=file, line=line, detail=detail))

    def info(self, rid, msg):
        self.infos.append("%s: %s" % (rid, msg))

    def fail_broken(self, msg):
        self.broken.append(msg)

    # -- finish
    def finish(self):
        self.floor_broken = []
        for rid, r in self.rules.items():
            if r["instances"] < r["floor"]:
                self.floor_broken.append("rule %s matched %d instances, below its floor %d (confirmed by hand on the pinned tree)" % (rid, r["instances"], r["floor"]))
        # a floor that is not met makes a *pass* meaningless (vacuous rule); a concrete violation found by another
        # instance is still a finding, so floors only turn an otherwise clean run into "analysis broken"
        if not self.violations:
            self.broken += self.floor_broken
        wall = time.time() - self.t0
        evaluations = sum(r["instances"] for r in self.rules.values())
        nontrivial = sum(r["nontrivial"] for r in self.rules.values())
        samples = []
        for rid, r in self.rules.items():
            for s in r["samples"][:2]:
                samples.append({"rule": rid, "instance": s})
        rule_table = {rid: dict(description=r["desc"], instances=r["instances"], distinct_nontrivial=r["nontrivial"], floor=r["floor"]) for rid, r in self.rules.items()}
        cov = dict(
            evaluations=evaluations,
            distinct_nontrivial=nontrivial,
            rule="rule instances enumerated from the parsed source (clang 14 AST via opmfacts); an instance is non-trivial when it carries an obligation (see per-rule description) and distinct by its instance key",
            samples=samples or [{"note": "no instances"}],
            explanation="static analysis of /repo's current source: %d units parsed, %d rule instances over %d rules; verdict = every instance satisfies its rule; floors guard against vacuous passes" % (len(self.units), evaluations, len(self.rules)),
            rules=rule_table,
            units_parsed=sorted(self.units),
            known_findings_present=[h["key"] for h in self.known_hits],
            information=self.infos[:60],
            analysis_broken=self.broken + [b for b in self.floor_broken if b not in self.broken],
            exhaustive=True,
        )
        cov.update(self.extra)
        ev = dict(property_id=self.pid, tier=self.tier, seed=self.seed, level=self.level, coverage=cov,
                  assumptions=self.assumptions, wall_s=round(wall, 2), violations=len(self.violations))
        os.makedirs(os.path.join(VERIF, "evidence"), exist_ok=True)
        if self.root == REPO or os.environ.get("VERIF_WRITE_EVIDENCE"):
            with open(os.path.join(VERIF, "evidence", self.pid + ".json"), "w") as fh:
                json.dump(ev, fh, indent=1, sort_keys=True, default=list)
                fh.write("\n")
        # reports
        rdir = os.path.join(os.environ.get("VERIF_REPORTS", os.path.join(VERIF, "reports")), self.pid)
        os.makedirs(rdir, exist_ok=True)
        for old in glob.glob(os.path.join(rdir, "*.json")):
            os.remove(old)
        if os.environ.get("VERIF_REFNAMES_RECORD"):
            refnames.flush_record()
        if os.environ.get("VERIF_ANCHORS"):
            with open(os.environ["VERIF_ANCHORS"], "w") as fh:
                json.dump(dict(touched=sorted(TOUCHED, key=str), instance_functions=sorted(TOUCHED_Q)), fh)
        print("== %s (%s): %d units, %d rules, %d instances, %.1fs" % (self.pid, self.tier, len(self.units), len(self.rules), evaluations, wall))
        for rid, r in sorted(self.rules.items()):
            print("   %-16s %5d instances (floor %d)  %s" % (rid, r["instances"], r["floor"], r["desc"][:90]))
        for h in self.known_hits:
            print("KNOWN-FINDING: property=%s %s %s" % (self.pid, h["key"], h["what"]))
        if self.broken:
            for b in self.broken:
                print("ANALYSIS-BROKEN property=%s %s" % (self.pid, b))
            return 2
        n = 0
        for v in self.violations:
            n += 1
            safe = re.sub(r"[^A-Za-z0-9_.-]+", "_", v["key"])[:120]
            path = os.path.join(rdir, "%s-%d.json" % (safe, n))
            with open(path, "w") as fh:
                json.dump(v, fh, indent=1, default=list)
            print("  %s:%s: [%s] %s" % (v.get("file"), v.get("line"), v["rule"], v["message"]))
            print("VIOLATION property=%s replay=%s" % (self.pid, path))
        return 1 if self.violations else 0


class Only:
    """A view of a Check that lets a rule module run for another property: only the listed rule ids register, count and report."""

    def __init__(self, chk_, allow):
        self.__dict__["c"] = chk_
        self.__dict__["allow"] = set(allow)

    def __getattr__(self, k):
        return getattr(self.c, k)

    def __setattr__(self, k, v):
        setattr(self.c, k, v)

    def rule(self, rid, desc, floor=0):
        if rid in self.allow:
            return self.c.rule(rid, desc, floor)
        return rid

    def instance(self, rid, *a, **kw):
        if rid in self.allow:
            self.c.instance(rid, *a, **kw)

    def violation(self, rid, *a, **kw):
        if rid in self.allow:
            self.c.violation(rid, *a, **kw)

    def info(self, rid, *a, **kw):
        if rid in self.allow:
            self.c.info(rid, *a, **kw)


TOUCHED = set()      # (q, file, l, l_end) of every function a rule asked for by name (tool/neutral.py uses it)
TOUCHED_Q = set()    # qualified names of functions that carry rule instances


def load_table(name):
    with open(os.path.join(VERIF, "tables", name)) as fh:
        return json.load(fh)
