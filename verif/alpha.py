"""Name-independent comparison of expressions.

Rules must not depend on how a local variable or parameter happens to be called (renaming one is behaviour preserving).
Two tools:

  pmatch(pattern, text, bindings)   textual patterns over show() renderings in which `$name` stands for an identifier;
                                    the same placeholder binds the same identifier everywhere (across several calls if
                                    the bindings dict is passed on).
  Inliner(fn)                       replaces references to single-definition locals by their defining expression and
                                    renders what is left with the remaining locals numbered by first appearance, so two
                                    alpha-equivalent functions (also with temporaries introduced or removed) give the
                                    same text.
"""
import re

from verif.tree import walk, strip, decast, show

_ID = r"[A-Za-z_]\w*"


def pmatch(pattern, text, b=None):
    """Return the (extended) bindings if `text` matches `pattern`, else None.  `$x` matches one identifier."""
    b = dict(b or {})
    seen = []
    rx = ""
    pos = 0
    for m in re.finditer(r"\$(\w+)", pattern):
        rx += re.escape(pattern[pos:m.start()])
        nm = m.group(1)
        if nm in b:
            rx += re.escape(b[nm])
        elif nm in seen:
            rx += "(?P=%s)" % nm
        else:
            seen.append(nm)
            rx += "(?P<%s>%s)" % (nm, _ID)
        pos = m.end()
    rx += re.escape(pattern[pos:])
    mm = re.fullmatch(rx, text)
    if not mm:
        return None
    for nm in seen:
        b[nm] = mm.group(nm)
    vals = list(b.values())
    if len(set(vals)) != len(vals):      # two roles bound to the same identifier: not a match of the shape
        return None
    return b


def local_decls(fn):
    """name -> list of VarDecl dicts (params included, as dicts with 'param': True)."""
    out = {}
    for p_ in fn.get("params") or []:
        if p_.get("n"):
            out.setdefault(p_["n"], []).append(dict(p_, param=True))
    if fn.get("body"):
        for n in walk(fn["body"]):
            if n["k"] == "Decl":
                for v in n["vars"]:
                    if v.get("n"):
                        out.setdefault(v["n"], []).append(v)
            elif n["k"] == "ForRange" and isinstance(n.get("var"), dict) and n["var"].get("n"):
                out.setdefault(n["var"]["n"], []).append(dict(n["var"], loopvar=True))
            elif n["k"] == "Lambda":
                for p_ in n.get("params") or []:
                    if isinstance(p_, dict) and p_.get("n"):
                        out.setdefault(p_["n"], []).append(dict(p_, param=True))
    return out


def _mutated(fn):
    """names of locals that are assigned, incremented, compound-assigned or handed to a non-const reference / pointer."""
    mut = set()
    if not fn.get("body"):
        return mut
    for n in walk(fn["body"]):
        if n["k"] == "Bin" and n.get("asg"):
            x = strip(n["c"][0])
            while x.get("k") in ("Mem", "Idx") and (x.get("b") or x.get("c")):
                x = strip(x["b"] if x["k"] == "Mem" else x["c"][0])
            if x.get("k") == "Ref":
                mut.add(x["n"])
        elif n["k"] == "Un" and ("++" in (n.get("op") or "") or "--" in (n.get("op") or "") or n.get("op") == "&") and n.get("c"):
            x = strip(n["c"][0])
            if x.get("k") == "Ref":
                mut.add(x["n"])
        elif n["k"] == "OpCall" and n.get("op") in ("=", "+=", "-=", "*=", "/=", "++", "--", "<<", ">>") and n.get("a"):
            x = strip(n["a"][0])
            if x.get("k") == "Ref":
                mut.add(x["n"])
        if n["k"] in ("Call", "MCall", "Ctor"):
            pts = n.get("pt") or []
            for i, a_ in enumerate(n.get("a") or []):
                x = strip(a_)
                if x.get("k") == "Ref" and i < len(pts):
                    t = pts[i]
                    if (t.rstrip().endswith("&") and not t.lstrip().startswith("const ") and "&&" not in t) or t.rstrip().endswith("*"):
                        mut.add(x["n"])
            if n["k"] == "MCall" and isinstance(n.get("obj"), dict) and not n.get("const"):
                x = strip(n["obj"])
                if x.get("k") == "Ref":
                    mut.add(x["n"])
    return mut


class Inliner:
    def __init__(self, fn, extra_defs=None, keep=()):
        self.fn = fn
        self.decls = local_decls(fn)
        self.mut = _mutated(fn)
        self.defs = {}
        for nm, ds in self.decls.items():
            if len(ds) == 1 and not ds[0].get("param") and not ds[0].get("loopvar") and nm not in self.mut and isinstance(ds[0].get("init"), dict) and nm not in keep:
                self.defs[nm] = ds[0]["init"]
        if extra_defs:
            self.defs.update(extra_defs)

    def expand(self, e, depth=0, defs=None):
        """Copy of the tree with casts removed and single-definition locals replaced by their definitions."""
        defs = self.defs if defs is None else defs
        if isinstance(e, list):
            return [self.expand(x, depth, defs) for x in e]
        if not isinstance(e, dict):
            return e
        if e.get("k") == "Cast" and e.get("c"):
            return self.expand(e["c"][0], depth, defs)
        if e.get("k") == "Ref" and e.get("d") in ("Var", "Parm") and e.get("n") in defs and depth < 12:
            return self.expand(defs[e["n"]], depth + 1, defs)
        return {k: self.expand(v, depth, defs) if isinstance(v, (dict, list)) else v for k, v in e.items()}

    def render(self, e, roles=None, defs=None):
        """show() of the expanded tree with every remaining local renamed: a local listed in `roles` (name -> role) becomes
        $role, the others $1, $2, ... by first appearance."""
        t = self.expand(e, 0, defs)
        order = []
        roles = roles or {}
        for n in walk(t):
            if n.get("k") == "Ref" and n.get("d") in ("Var", "Parm") and n.get("n") in self.decls and n["n"] not in roles and n["n"] not in order:
                order.append(n["n"])
        ren = {nm: "$%d" % (i + 1) for i, nm in enumerate(order)}
        ren.update({nm: "$" + r for nm, r in roles.items()})

        def rn(x):
            if isinstance(x, list):
                return [rn(y) for y in x]
            if not isinstance(x, dict):
                return x
            y = {k: rn(v) if isinstance(v, (dict, list)) else v for k, v in x.items()}
            if y.get("k") == "Ref" and y.get("d") in ("Var", "Parm") and y.get("n") in ren:
                y["n"] = ren[y["n"]]
            return y
        return show(rn(t))
