"""Two cursors that approach each other: a loop that compares two integer locals a and b for its exit, with a moved up
and b moved down (or the reverse) inside the loop.  When both can move in one iteration the gap shrinks by two, so an
exit on equality (`a == b` -> break, or `while (a != b)`) can be stepped over: the cursors cross, run off both ends of
the sequence they index and the loop never ends.  Only an ordering test (`>=`, `<`, ...) is a correct exit.

analyse(fn) -> [(loop line, test text, is_equality, a, b)] for every such pair of cursors."""
from verif.tree import decast, show, walk


def _moves(loop, ref):
    up = down = False
    for n in walk(loop):
        t = None
        if n.get("k") == "Un" and ("++" in (n.get("op") or "") or "--" in (n.get("op") or "")):
            t = decast(n["c"][0])
            d = "up" if "++" in n["op"] else "down"
        elif n.get("k") == "Bin" and n.get("asg") and n.get("op") in ("+=", "-="):
            t = decast(n["c"][0])
            d = "up" if n["op"] == "+=" else "down"
        if t is not None and t.get("k") == "Ref" and t.get("n") == ref.get("n") and t.get("dl") == ref.get("dl"):
            up = up or d == "up"
            down = down or d == "down"
    return up, down


def analyse(fn):
    out = []
    for lp in walk(fn["body"]):
        if lp.get("k") not in ("While", "For", "Do"):
            continue
        tests = []
        c = lp.get("cond")
        if isinstance(c, dict):
            for x in walk(c):
                if x.get("k") == "Bin" and x.get("op") in ("!=", "==", "<", "<=", ">", ">="):
                    tests.append((x, x["op"] == "!="))
        for x in walk(lp.get("body") or {}):
            if x.get("k") == "If" and isinstance(x.get("cond"), dict) and any(y.get("k") in ("Break", "Return") for y in walk(x["then"])):
                for y in walk(x["cond"]):
                    if y.get("k") == "Bin" and y.get("op") in ("==", "!=", "<", "<=", ">", ">="):
                        tests.append((y, y["op"] == "=="))
        for t, is_eq in tests:
            a, b = decast(t["c"][0]), decast(t["c"][1])
            if not (a.get("k") == "Ref" and b.get("k") == "Ref" and a.get("d") in ("Var", "Parm") and b.get("d") in ("Var", "Parm")):
                continue
            if "iterator" in (a.get("t") or "") or "*" in (a.get("t") or ""):
                continue
            ua, da = _moves(lp, a)
            ub, db = _moves(lp, b)
            if (ua and db and not da and not ub) or (da and ub and not ua and not db):
                out.append((lp.get("l"), show(t), is_eq, a["n"], b["n"]))
    return out
