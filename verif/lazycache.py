"""Lazily filled caches: a `mutable` member M that a const method fills when it is empty (if (M.empty()) build(); return M;)
is valid only as long as the members it is built from are unchanged.  Obligation: every statement of a non-const method that
modifies one of those source members is followed, on every path to a return, by a statement that empties M."""
from verif.tree import walk, strip, meth, show, escapes_without, children


def this_mem(e):
    e = strip(e)
    if isinstance(e, dict) and e.get("k") in ("Mem", "DMem") and strip(e.get("b") or {"k": "This"}).get("k") == "This":
        return e.get("n")
    return None


def empties(stmt, M):
    """stmt empties the cache M: M.clear(), M.reset(), M = {} / nullopt / default-constructed"""
    m_, o_ = meth(stmt)
    if m_ in ("clear", "reset") and o_ is not None and this_mem(o_) == M:
        return True
    lhs = rhs = None
    if stmt.get("k") == "Bin" and stmt.get("asg") and stmt.get("op") == "=":
        lhs, rhs = stmt["c"]
    elif stmt.get("k") == "OpCall" and stmt.get("op") == "=" and len(stmt.get("a") or []) == 2:
        lhs, rhs = stmt["a"]
    if lhs is not None and this_mem(lhs) == M:
        t = show(rhs)
        return "nullopt" in t or t.endswith("{}") or t.endswith("()") or "{}" in t
    return False


def find_caches(fx, classes=None):
    """[(class q, M, filler function entity or None, sources set, test node)]"""
    out = []
    by_cls = {}
    for f in fx.fns:
        if f.get("cls") and f.get("body"):
            by_cls.setdefault(f["cls"], []).append(f)
    for q, rec in fx.recs.items():
        if classes is not None and q not in classes:
            continue
        muts = [fl["n"] for fl in rec.get("fields", []) if fl.get("mutable")]
        if not muts:
            continue
        for M in muts:
            for f in by_cls.get(q, []):
                if "const" not in (f.get("sig") or "").split(")")[-1]:
                    continue
                for n in walk(f["body"]):
                    if n["k"] != "If" or not isinstance(n.get("cond"), dict):
                        continue
                    c = strip(n["cond"])
                    neg = False
                    while c.get("k") == "Un" and c.get("op") == "!":
                        neg = not neg
                        c = strip(c["c"][0])
                    m_, o_ = meth(c)
                    is_empty_test = (m_ == "empty" and o_ is not None and this_mem(o_) == M and not neg) or \
                                    (m_ == "has_value" and o_ is not None and this_mem(o_) == M and neg) or \
                                    (this_mem(c) == M and neg) or \
                                    (c.get("k") in ("OpCall", "Call") and neg and any(this_mem(x) == M for x in (c.get("a") or [])) and "bool" in (c.get("fn") or ""))
                    if not is_empty_test:
                        continue
                    srcs = set()
                    fillers = []
                    for x in walk(n["then"]):
                        if x["k"] in ("MCall",) and strip(x.get("obj") or {}).get("k") == "This" and x.get("fn"):
                            fillers += [g for g in by_cls.get(q, []) if g["q"] == x["fn"]]
                    for body in [n["then"]] + [g["body"] for g in fillers]:
                        for x in walk(body):
                            nm = this_mem(x)
                            if nm and nm != M:
                                srcs.add(nm)
                    fields = {fl["n"] for fl in rec.get("fields", [])}
                    srcs &= fields
                    if srcs:
                        out.append((q, M, f, srcs, n))
    # one entry per (class, M): union of sources
    merged = {}
    for q, M, f, srcs, n in out:
        k = (q, M)
        if k in merged:
            merged[k][3].update(srcs)
        else:
            merged[k] = [q, M, f, set(srcs), n]
    return list(merged.values()), by_cls


def mutations(f, sources):
    """statements of f that modify a source member: non-const member call on it, assignment to it (or to an element)"""
    out = []
    for n in walk(f["body"]):
        tgt = None
        if n["k"] == "MCall" and not n.get("const") and isinstance(n.get("obj"), dict):
            base = strip(n["obj"])
            while base.get("k") in ("Idx",) or (base.get("k") == "OpCall" and base.get("op") == "[]"):
                base = strip((base.get("c") or base.get("a"))[0])
            tgt = this_mem(base)
            if n.get("m") in ("begin", "end", "find", "size", "empty", "at", "count", "cbegin", "cend", "data", "front", "back"):
                tgt = None
        elif n["k"] == "Bin" and n.get("asg"):
            base = strip(n["c"][0])
            while base.get("k") in ("Idx",) or (base.get("k") == "OpCall" and base.get("op") == "[]"):
                base = strip((base.get("c") or base.get("a"))[0])
            tgt = this_mem(base)
        elif n["k"] == "OpCall" and n.get("op") in ("=", "+=", "[]") and n.get("a") and not n.get("const"):
            base = strip(n["a"][0])
            if n.get("op") == "[]":
                # map[key] inserts: a mutation only if the subscripted object is a map-like source and this is an lvalue use
                continue
            while base.get("k") in ("Idx",) or (base.get("k") == "OpCall" and base.get("op") == "[]"):
                base = strip((base.get("c") or base.get("a"))[0])
            tgt = this_mem(base)
        if tgt in sources:
            out.append((n, tgt))
    return out


def check(fx, classes=None):
    """yield (class, M, sources, function, mutation node, source member, offending exits)"""
    caches, by_cls = find_caches(fx, classes)
    for q, M, filler, srcs, test in caches:
        for f in by_cls.get(q, []):
            if "const" in (f.get("sig") or "").split(")")[-1] or f["n"] == q.split("::")[-1] or f["n"].startswith(("operator=", "serializ", "~")):
                continue
            if any(x.get("k") == "Goto" for x in walk(f["body"])):
                continue
            pm = {}
            for x in walk(f["body"]):
                for ch in children(x):
                    pm[id(ch)] = x
            for node, src in mutations(f, srcs):
                # the statement that contains the mutation
                st = node
                while pm.get(id(st)) is not None and pm[id(st)].get("k") not in ("Block", "If", "For", "While", "ForRange", "Do", "Switch", "Try"):
                    st = pm[id(st)]
                # a barrier BEFORE the mutation in the same straight-line block also counts (clear; then modify)
                par = pm.get(id(st))
                before = False
                if par is not None and par.get("k") == "Block":
                    for s_ in par["c"]:
                        if s_ is st:
                            break
                        if empties(s_, M):
                            before = True
                bad = [] if before else escapes_without(f["body"], st, lambda s_: empties(s_, M) or any(empties(y, M) for y in walk(s_) if s_.get("k") not in ("If", "For", "While", "ForRange", "Do", "Block", "Switch", "Try")), pm)
                yield q, M, srcs, f, node, src, bad
