"""Lower bound on the size of a local sequence container at every front()/back()/pop_back()/pop_front() (structured flow).

For each LOCAL std::vector / std::deque / std::string / std::list the analysis keeps a lower bound `lb` on its size:

  declared empty                         lb = 0            (declared from an expression: unknown = 0)
  V.push_back / emplace_back / push_front  lb + 1
  V.pop_back / pop_front                 needs lb >= 1, then lb - 1
  V.back() / V.front()                   needs lb >= 1
  V.clear()                              lb = 0
  if (V.empty()) A else B                A: lb = 0; B: lb >= 1          (!V.empty() the other way round)
  if (V.size() < n) A else B             B: lb >= n        (also <=, >, >=, ==, != with an integer literal; && / ||)
  a branch that ends in throw / return / break / continue does not flow on
  loops                                  body analysed from lb = 0 unless the loop condition gives a bound (while (!V.empty()));
                                         after the loop lb = 0
  any other use of V (passed to a function by mutable reference, assigned, resized, erase ...)   lb = 0

A required bound that is not established is reported.  Containers that are data members, parameters or globals are not
analysed (their size is decided elsewhere)."""
from verif.tree import walk, strip, show, stmt_list, children

SEQ = ("std::vector<", "std::deque<", "std::list<", "std::basic_string<", "std::string", "vector<", "deque<")


def _is_seq(t):
    t = (t or "").replace("const ", "")
    return t.startswith(SEQ) and "&" not in t and "*" not in t


def _lit(e):
    e = strip(e)
    if e.get("k") == "Int":
        return int(e["v"])
    return None


def _size_call(e, tracked):
    e = strip(e)
    if e.get("k") == "MCall" and e.get("m") in ("size", "length") and isinstance(e.get("obj"), dict) and strip(e["obj"]).get("k") == "Ref" and strip(e["obj"]).get("n") in tracked:
        return strip(e["obj"])["n"]
    return None


def _facts(c, tracked):
    """(bounds if true, bounds if false): var -> ('ge', n) | ('eq0',)"""
    c = strip(c)
    k = c.get("k")
    if k == "Bin" and c.get("op") == "&&":
        a, b = _facts(c["c"][0], tracked), _facts(c["c"][1], tracked)
        t = dict(a[0])
        t.update(b[0])
        return t, {}
    if k == "Bin" and c.get("op") == "||":
        a, b = _facts(c["c"][0], tracked), _facts(c["c"][1], tracked)
        f = dict(a[1])
        f.update(b[1])
        return {}, f
    if k == "Un" and c.get("op") == "!" and c.get("c"):
        t, f = _facts(c["c"][0], tracked)
        return f, t
    if k == "MCall" and c.get("m") == "empty" and isinstance(c.get("obj"), dict) and strip(c["obj"]).get("k") == "Ref" and strip(c["obj"]).get("n") in tracked:
        v = strip(c["obj"])["n"]
        return {v: ("eq0",)}, {v: ("ge", 1)}
    if k == "Bin" and c.get("op") in ("<", "<=", ">", ">=", "==", "!=") and len(c.get("c") or []) == 2:
        a, b = c["c"]
        op = c["op"]
        v, n = _size_call(a, tracked), _lit(b)
        if v is None:
            v, n = _size_call(b, tracked), _lit(a)
            op = {"<": ">", "<=": ">=", ">": "<", ">=": "<=", "==": "==", "!=": "!="}[op]
        if v is not None and n is not None:
            if op == "<":
                return ({v: ("eq0",)} if n == 1 else {}), {v: ("ge", n)}
            if op == "<=":
                return ({v: ("eq0",)} if n == 0 else {}), {v: ("ge", n + 1)}
            if op == ">":
                return {v: ("ge", n + 1)}, {}
            if op == ">=":
                return {v: ("ge", n)}, {}
            if op == "==":
                return ({v: ("eq0",)} if n == 0 else {v: ("ge", n)}), ({v: ("ge", 1)} if n == 0 else {})
            if op == "!=":
                return ({v: ("ge", 1)} if n == 0 else {}), ({v: ("eq0",)} if n == 0 else {v: ("ge", n)})
    return {}, {}


def analyse(fn, entry=None, guards=None, callsites=None):
    """entry: {param name: lower bound at every call site}; guards: {function q: [param indices it proves non-empty or throws]};
    callsites: dict to fill: (callee q, param index) -> minimum bound over the call sites seen"""
    if not fn.get("body"):
        return [], set()
    entry = entry or {}
    guards = guards or {}
    tracked = set()
    report_for = set()
    for p_ in fn.get("params") or []:
        t_ = (p_.get("t") or "")
        if p_.get("n") and t_.replace("const ", "").startswith(SEQ) and t_.rstrip().endswith("&") and not t_.startswith("const "):
            tracked.add(p_["n"])
            report_for.add(p_["n"])
    for n in walk(fn["body"]):
        if n.get("k") == "Decl":
            for v in n["vars"]:
                # only containers that start EMPTY here: every element they ever hold is added by this function
                init = v.get("init")
                empty_init = init is None or (isinstance(init, dict) and strip(init).get("k") in ("Ctor", "InitList", "Temp") and not [a for a in (strip(init).get("a") or strip(init).get("c") or []) if a.get("k") != "DefArg"])
                if _is_seq(v.get("t")):
                    tracked.add(v["n"])
                    if empty_init:
                        report_for.add(v["n"])
    used = set()
    for n in walk(fn["body"]):
        if n.get("k") == "MCall" and n.get("m") in ("back", "front", "pop_back", "pop_front") and isinstance(n.get("obj"), dict) and strip(n["obj"]).get("k") == "Ref" and strip(n["obj"]).get("n") in tracked:
            used.add(strip(n["obj"])["n"])
    passed = set()
    for n in walk(fn["body"]):
        if n.get("k") in ("Call", "MCall") and (n.get("fn") or ""):
            for a in n.get("a") or []:
                if strip(a).get("k") == "Ref" and strip(a).get("n") in tracked:
                    passed.add(strip(a)["n"])
    tracked &= (used | passed)
    if not tracked:
        return [], set()
    reports = []
    init_state = {v: entry.get(v, 0) for v in tracked}

    def apply_expr(e, st):
        """walk an expression in evaluation order (approximately: children first), updating st and reporting"""
        if not isinstance(e, dict):
            return
        k = e.get("k")
        if k == "Bin" and e.get("op") in ("&&", "||") and len(e.get("c") or []) == 2:
            apply_expr(e["c"][0], st)
            t, f = _facts(e["c"][0], tracked)
            st2 = dict(st)
            for v, b in (t if e["op"] == "&&" else f).items():
                st2[v] = 0 if b[0] == "eq0" else max(st2.get(v, 0), b[1])
            apply_expr(e["c"][1], st2)
            for v in tracked:
                st[v] = min(st.get(v, 0), st2.get(v, 0)) if st2.get(v, 0) < st.get(v, 0) else st.get(v, 0)
            return
        if k == "Lambda":
            for v in tracked:
                if any(c.get("n") == v for c in e.get("caps") or []) or any(x.get("k") == "Ref" and x.get("n") == v for x in walk(e)):
                    st[v] = 0
            return
        if k == "MCall" and isinstance(e.get("obj"), dict) and strip(e["obj"]).get("k") == "Ref" and strip(e["obj"]).get("n") in tracked:
            v = strip(e["obj"])["n"]
            for a in e.get("a") or []:
                apply_expr(a, st)
            m = e.get("m")
            if m in ("back", "front"):
                if st.get(v, 0) < 1 and v in report_for:
                    reports.append((e.get("l"), v, "%s.%s()" % (v, m), st.get(v, 0)))
            elif m in ("pop_back", "pop_front"):
                if st.get(v, 0) < 1 and v in report_for:
                    reports.append((e.get("l"), v, "%s.%s()" % (v, m), st.get(v, 0)))
                st[v] = max(0, st.get(v, 0) - 1)
            elif m in ("push_back", "emplace_back", "push_front", "emplace_front"):
                st[v] = st.get(v, 0) + 1
            elif m in ("size", "length", "empty", "begin", "end", "cbegin", "cend", "data", "c_str", "capacity", "reserve", "at", "find", "substr", "compare", "rbegin", "rend", "operator[]"):
                pass
            elif m == "resize" and e.get("a"):
                a0 = strip(e["a"][0])
                lit = _lit(a0)
                if lit is None and a0.get("k") == "Bin" and a0.get("op") == "+":
                    lits = [x for x in (_lit(a0["c"][0]), _lit(a0["c"][1])) if x is not None]
                    lit = lits[0] if lits else None      # n + k with n a count (taken as non-negative)
                st[v] = lit if lit is not None and lit >= 0 else 0
            else:
                st[v] = 0
            return
        if k in ("Call", "MCall") and (e.get("fn") or "") and any(strip(a).get("k") == "Ref" and strip(a).get("n") in tracked for a in e.get("a") or []):
            if isinstance(e.get("obj"), dict):
                apply_expr(e["obj"], st)
            pts = e.get("pt") or []
            for i, a in enumerate(e.get("a") or []):
                a_ = strip(a)
                if a_.get("k") == "Ref" and a_.get("n") in tracked:
                    v = a_["n"]
                    if callsites is not None:
                        key = (e["fn"], i)
                        callsites[key] = min(callsites.get(key, 10 ** 6), st.get(v, 0))
                    if i in guards.get(e["fn"], ()):
                        st[v] = max(st.get(v, 0), 1)
                    elif i < len(pts) and pts[i].lstrip().startswith("const "):
                        pass              # read only
                    else:
                        st[v] = 0
                else:
                    apply_expr(a, st)
            return
        if k == "Ref" and e.get("n") in tracked:
            st[e["n"]] = 0        # any other appearance: handed on / assigned / compared - assume nothing
            return
        if k in ("Idx", "OpCall") and (e.get("op") == "[]" or k == "Idx"):
            kids = e.get("c") or e.get("a") or []
            if kids and strip(kids[0]).get("k") == "Ref" and strip(kids[0]).get("n") in tracked:
                for a in kids[1:]:
                    apply_expr(a, st)
                return
        for c in children(e):
            apply_expr(c, st)

    def merge(a, b):
        return {v: min(a.get(v, 0), b.get(v, 0)) for v in tracked}

    break_states = []

    def run(stmts, st):
        st = dict(st)
        for s in stmts:
            k = s.get("k")
            if k == "Decl":
                for v in s["vars"]:
                    if isinstance(v.get("init"), dict):
                        apply_expr(v["init"], st)
                    if v["n"] in tracked:
                        st[v["n"]] = 0
            elif k == "If":
                if isinstance(s.get("cond"), dict):
                    apply_expr(s["cond"], st)
                t, f = _facts(s["cond"], tracked) if isinstance(s.get("cond"), dict) else ({}, {})
                st_t, st_f = dict(st), dict(st)
                for v, b in t.items():
                    st_t[v] = 0 if b[0] == "eq0" else max(st_t.get(v, 0), b[1])
                for v, b in f.items():
                    st_f[v] = 0 if b[0] == "eq0" else max(st_f.get(v, 0), b[1])
                r_t = run(stmt_list(s["then"]), st_t)
                r_f = run(stmt_list(s["else"]), st_f) if s.get("else") is not None else st_f
                if r_t is None and r_f is None:
                    return None
                st = r_f if r_t is None else r_t if r_f is None else merge(r_t, r_f)
            elif k in ("For", "While", "Do", "ForRange"):
                shrinks = set()
                for x in walk(s):
                    if x.get("k") == "MCall" and isinstance(x.get("obj"), dict) and strip(x["obj"]).get("k") == "Ref" and strip(x["obj"]).get("n") in tracked:
                        if x.get("m") not in ("push_back", "emplace_back", "push_front", "emplace_front", "back", "front", "size", "length", "empty", "begin", "end", "cbegin", "cend", "data", "c_str", "capacity", "reserve", "at", "find", "substr", "compare", "rbegin", "rend"):
                            shrinks.add(strip(x["obj"])["n"])
                    elif x.get("k") == "Ref" and x.get("n") in tracked:
                        pass
                # a Ref that is not the receiver of one of the calls above is an unknown use
                recv = {id(strip(x["obj"])) for x in walk(s) if x.get("k") == "MCall" and isinstance(x.get("obj"), dict)}
                idxb = {id(strip((x.get("c") or x.get("a"))[0])) for x in walk(s) if (x.get("k") == "Idx" or (x.get("k") == "OpCall" and x.get("op") == "[]")) and (x.get("c") or x.get("a"))}
                for x in walk(s):
                    if x.get("k") == "Ref" and x.get("n") in tracked and id(x) not in recv and id(x) not in idxb:
                        shrinks.add(x["n"])
                inner = {v: (0 if v in shrinks else st.get(v, 0)) for v in tracked}
                keep_after = {v: (0 if v in shrinks else st.get(v, 0)) for v in tracked}
                if isinstance(s.get("init"), dict):
                    run([s["init"]], st)
                if isinstance(s.get("cond"), dict):
                    t, _f = _facts(s["cond"], tracked)
                    for v, b in t.items():
                        inner[v] = 0 if b[0] == "eq0" else max(inner.get(v, 0), b[1])
                break_states.append([])
                endless = k in ("While", "For") and (s.get("cond") is None or show(strip(s["cond"])) in ("true", "1"))
                run(stmt_list(s["body"]) if isinstance(s.get("body"), dict) else [], inner)
                bs = break_states.pop()
                if endless and bs:
                    st = {v: min(b.get(v, 0) for b in bs) for v in tracked}      # the only ways out are the breaks
                else:
                    st = keep_after
            elif k == "Block":
                r = run(stmt_list(s), st)
                if r is None:
                    return None
                st = r
            elif k in ("Throw", "Return", "Break", "Continue"):
                if isinstance(s.get("e"), dict):
                    apply_expr(s["e"], st)
                if k == "Break" and break_states:
                    break_states[-1].append(dict(st))
                return None
            elif k == "Switch":
                run(stmt_list(s["body"]) if isinstance(s.get("body"), dict) else [], {v: 0 for v in tracked})
                st = {v: 0 for v in tracked}
            elif k == "Try":
                for c in children(s):
                    if c.get("k") == "Block":
                        run(stmt_list(c), {v: 0 for v in tracked} if c is not s.get("body") else st)
                st = {v: 0 for v in tracked}
            else:
                apply_expr(s, st)
        return st
    run(stmt_list(fn["body"]), init_state)
    return reports, tracked & report_for


def guard_params(fn):
    """indices of the parameters p for which the function starts with `if (p.empty()) throw ...` (or size() < n)"""
    out = []
    if not fn.get("body"):
        return out
    names = [p_.get("n") for p_ in fn.get("params") or []]
    for s in stmt_list(fn["body"]):
        if s.get("k") != "If" or not isinstance(s.get("cond"), dict):
            break
        t, f = _facts(s["cond"], set(n_ for n_ in names if n_))
        ends = stmt_list(s["then"])
        if ends and ends[-1].get("k") in ("Throw",) and s.get("else") is None:
            for v, b in f.items():
                if b[0] == "ge" and b[1] >= 1 and v in names:
                    out.append(names.index(v))
        else:
            break
    return out


def analyse_unit(fns):
    """whole-file analysis: entry bounds of container parameters are the minimum over the call sites in the same file"""
    fns = [f for f in fns if f.get("body")]
    guards = {}
    for f in fns:
        g = guard_params(f)
        if g:
            guards[f["q"]] = g
    entry = {}
    result = {}
    for _round in range(3):
        callsites = {}
        result = {}
        for f in fns:
            e = {}
            for i, p_ in enumerate(f.get("params") or []):
                if (f["q"], i) in entry and p_.get("n"):
                    e[p_["n"]] = entry[(f["q"], i)]
            result[id(f)] = (f, analyse(f, e, guards, callsites))
        new_entry = {k_: (v if v < 10 ** 6 else 0) for k_, v in callsites.items()}
        if new_entry == entry:
            break
        entry = new_entry
    return [(f, rep, tr) for f, (rep, tr) in result.values()]
