"""Sign analysis of signed index variables (structured, path-sensitive over if/else chains; no execution).

For every local of signed integer type that the function counts DOWN somewhere (--v, v--, v -= k, v = v - k) the analysis
tracks one bit per program point - "may be negative here" - and reports every point where the variable is converted to an
unsigned type (static_cast<size_t>(v), implicit conversion in a subscript of a standard container) or used as a raw
subscript while the bit is set.

  v = <unsigned expression / non-negative literal / size()>      -> non-negative
  v = w                                                          -> bit of w
  loop that decrements v                                         -> inside the body: non-negative if the loop condition says so
                                                                    (v >= 0, v > 0, 0 <= v), else may be negative;
                                                                    after the loop: may be negative
  if (v < 0) A else B     (also v <= -1, v == -1; && of such)     -> A: negative, B: non-negative
  if (v >= 0) A else B    (also v > -1, 0 <= v)                    -> A: non-negative, B: negative
  a branch that ends in throw / return / break / continue does not flow on
Everything else leaves the bits unchanged.  Loops other than the ones above make their assigned variables "may be negative"
only if they decrement them."""
from verif.tree import walk, strip, show, stmt_list, children

SIGNED = ("int", "long", "short", "ssize_t", "ptrdiff_t", "std::ptrdiff_t", "long long", "int64_t", "std::int64_t", "int32_t")


def is_signed(t):
    t = (t or "").replace("const ", "").strip()
    return t in SIGNED


def _dec_vars(n):
    out = set()
    for x in walk(n):
        if x.get("k") == "Un" and "--" in (x.get("op") or "") and x.get("c") and strip(x["c"][0]).get("k") == "Ref":
            out.add(strip(x["c"][0])["n"])
        if x.get("k") == "Bin" and x.get("asg") and strip(x["c"][0]).get("k") == "Ref":
            v = strip(x["c"][0])["n"]
            if x["op"] == "-=":
                out.add(v)
            if x["op"] == "=":
                r = strip(x["c"][1])
                if r.get("k") == "Bin" and r.get("op") == "-" and strip(r["c"][0]).get("k") == "Ref" and strip(r["c"][0])["n"] == v:
                    out.add(v)
    return out


def _cond_facts(c, tracked):
    """(facts if true, facts if false): dict var -> 'neg' | 'nonneg'"""
    c = strip(c)
    if c.get("k") == "Bin" and c.get("op") == "&&":
        a, b = _cond_facts(c["c"][0], tracked), _cond_facts(c["c"][1], tracked)
        t = dict(a[0])
        t.update(b[0])
        return t, {}
    if c.get("k") == "Bin" and c.get("op") == "||":
        a, b = _cond_facts(c["c"][0], tracked), _cond_facts(c["c"][1], tracked)
        f = dict(a[1])
        f.update(b[1])
        return {}, f
    if c.get("k") == "Un" and c.get("op") == "!" and c.get("c"):
        t, f = _cond_facts(c["c"][0], tracked)
        return f, t
    if c.get("k") == "Bin" and c.get("op") in ("<", "<=", ">", ">=", "==", "!=") and len(c.get("c") or []) == 2:
        a, b = strip(c["c"][0]), strip(c["c"][1])
        op = c["op"]

        def lit(e):
            if e.get("k") == "Int":
                return int(e["v"])
            if e.get("k") == "Un" and e.get("op") == "-" and e.get("c") and strip(e["c"][0]).get("k") == "Int":
                return -int(strip(e["c"][0])["v"])
            return None
        if a.get("k") != "Ref" and b.get("k") == "Ref":
            a, b = b, a
            op = {"<": ">", "<=": ">=", ">": "<", ">=": "<=", "==": "==", "!=": "!="}[op]
        if a.get("k") == "Ref" and a.get("n") in tracked and lit(b) is not None:
            v, k = a["n"], lit(b)
            if (op == "<" and k <= 0) or (op == "<=" and k <= -1) or (op == "==" and k < 0):
                return {v: "neg"}, ({v: "nonneg"} if (op == "<" and k == 0) or (op == "<=" and k == -1) else {})
            if (op == ">=" and k >= 0) or (op == ">" and k >= -1) or (op == "==" and k >= 0):
                return {v: "nonneg"}, ({v: "neg"} if (op == ">=" and k == 0) or (op == ">" and k == -1) else {})
            if op == "!=" and k < 0:
                return {}, {v: "neg"}
    return {}, {}


def _ends(stmts):
    return bool(stmts) and stmts[-1].get("k") in ("Throw", "Return", "Break", "Continue")


def analyse(fn):
    """list of (line, variable, use text) where a tracked variable may be negative at an unsigned use"""
    if not fn.get("body"):
        return [], set()
    decls = {}
    for n in walk(fn["body"]):
        if n.get("k") == "Decl":
            for v in n["vars"]:
                if is_signed(v.get("t")):
                    decls[v["n"]] = v
    tracked = set(decls) & _dec_vars(fn["body"])
    if not tracked:
        return [], set()
    reports = []

    def uses(e, st):
        for x in walk(e):
            k = x.get("k")
            tgt = None
            if k == "Cast" and x.get("c") and any(u in (x.get("t") or "") for u in ("unsigned", "size_t", "size_type")):
                tgt = strip(x["c"][0])
            elif k == "Idx" and len(x.get("c") or []) == 2:
                tgt = strip(x["c"][1])
            elif k == "OpCall" and x.get("op") == "[]" and len(x.get("a") or []) == 2:
                tgt = strip(x["a"][1])
            elif k == "MCall" and x.get("m") == "at" and x.get("a"):
                tgt = None      # at() is bounds-checked: a negative index becomes an exception
            if tgt is not None and tgt.get("k") == "Ref" and tgt.get("n") in tracked and st.get(tgt["n"], False):
                reports.append((x.get("l"), tgt["n"], show(x)[:80]))

    def assign(st, v, rhs):
        r = strip(rhs) if isinstance(rhs, dict) else None
        if r is None:
            st[v] = False
        elif r.get("k") == "Ref" and r.get("n") in tracked:
            st[v] = st.get(r["n"], False)
        elif r.get("k") == "Un" and r.get("op") == "-":
            st[v] = True
        elif r.get("k") == "Bin" and r.get("op") == "-":
            st[v] = True
        else:
            st[v] = False

    def run(stmts, st):
        """returns state after the statements, or None if control never flows on"""
        st = dict(st)
        for s in stmts:
            k = s.get("k")
            if k == "Decl":
                for v in s["vars"]:
                    if isinstance(v.get("init"), dict):
                        uses(v["init"], st)
                    if v["n"] in tracked:
                        assign(st, v["n"], v.get("init"))
            elif k == "Bin" and s.get("asg") and strip(s["c"][0]).get("k") == "Ref" and strip(s["c"][0])["n"] in tracked:
                uses(s["c"][1], st)
                v = strip(s["c"][0])["n"]
                if s["op"] == "=":
                    assign(st, v, s["c"][1])
                elif s["op"] in ("-=",):
                    st[v] = True
            elif k == "If":
                if isinstance(s.get("cond"), dict):
                    uses(s["cond"], st)
                t, f = _cond_facts(s["cond"], tracked) if isinstance(s.get("cond"), dict) else ({}, {})
                st_t = dict(st)
                st_f = dict(st)
                for v, w in t.items():
                    st_t[v] = (w == "neg")
                for v, w in f.items():
                    st_f[v] = (w == "neg")
                r_t = run(stmt_list(s["then"]), st_t)
                r_f = run(stmt_list(s["else"]), st_f) if s.get("else") is not None else st_f
                if r_t is None and r_f is None:
                    return None
                if r_t is None:
                    st = r_f
                elif r_f is None:
                    st = r_t
                else:
                    st = {v: r_t.get(v, False) or r_f.get(v, False) for v in set(r_t) | set(r_f)}
            elif k in ("For", "While", "Do", "ForRange"):
                dec = _dec_vars(s) & tracked
                inner = dict(st)
                if isinstance(s.get("init"), dict):
                    r0 = run([s["init"]], inner)
                    inner = r0 if r0 is not None else inner
                for v in dec:
                    inner[v] = True
                if isinstance(s.get("cond"), dict):
                    t, _f = _cond_facts(s["cond"], tracked)
                    for v, w in t.items():
                        inner[v] = (w == "neg")
                    uses(s["cond"], inner)
                body = stmt_list(s["body"]) if isinstance(s.get("body"), dict) else []
                run(body, inner)
                st = dict(st)
                if isinstance(s.get("init"), dict) and s["init"].get("k") == "Decl":
                    pass
                for v in dec:
                    st[v] = True
            elif k == "Block":
                r = run(stmt_list(s), st)
                if r is None:
                    return None
                st = r
            elif k in ("Throw", "Return", "Break", "Continue"):
                if isinstance(s.get("e"), dict):
                    uses(s["e"], st)
                return None
            else:
                uses(s, st)
                for x in walk(s):
                    if x.get("k") == "Un" and "--" in (x.get("op") or "") and x.get("c") and strip(x["c"][0]).get("k") == "Ref" and strip(x["c"][0])["n"] in tracked:
                        st[strip(x["c"][0])["n"]] = True
        return st
    run(stmt_list(fn["body"]), {v: False for v in tracked})
    return reports, tracked
