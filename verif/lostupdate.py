"""Lost updates: a local COPY of longer-lived state that is modified and then dropped.

The schedule code changes state by copy - modify - install:   auto x = state.thing();  x.change(...);  state.thing.update(x);
If the last step is missing the keyword (or the restart record) is silently ignored.  For every local variable that

  * is an object (not a reference, pointer, iterator, arithmetic or string value) initialised from an expression rooted in
    storage that outlives the function (a member of *this, of a reference parameter or of another such local, a call on one
    of these, or make_shared / a copy constructor of one), and
  * is written at least once (a non-const member function is called on it, directly or through ->, or one of its members
    is assigned),

some later use must READ it: it is passed to a function (also inside std::move), returned, copied, compared or has a
const member read.  A variable with writes and no read is reported."""
from verif.tree import walk, strip, show, children

SKIP_T = ("int", "double", "float", "bool", "size_t", "std::size_t", "unsigned", "long", "char", "std::string", "string", "time_point", "iterator", "std::time_t")


def _root_outlives(e, refparams, others):
    e = strip(e)
    seen = 0
    while True:
        seen += 1
        if seen > 12:
            return False
        k = e.get("k")
        if k in ("Ctor", "Temp", "Bind", "Cast", "?ParenListExpr", "InitList"):
            kids = [c for c in (e.get("a") or e.get("c") or []) if c.get("k") != "DefArg"]
            if len(kids) != 1:
                return False
            e = strip(kids[0])
        elif k == "Call" and ((e.get("fn") or "").startswith("std::make_shared") or (e.get("fn") or "").startswith("std::make_unique")):
            kids = [c for c in (e.get("a") or []) if c.get("k") != "DefArg"]
            if len(kids) != 1:
                return False
            e = strip(kids[0])
        elif k == "MCall" and isinstance(e.get("obj"), dict):
            e = strip(e["obj"])
        elif k == "OpCall" and e.get("op") in ("->", "*", "()", "[]") and e.get("a"):
            e = strip(e["a"][0])
        elif k in ("Mem", "DMem") and isinstance(e.get("b"), dict):
            e = strip(e["b"])
        elif k == "Un" and e.get("op") == "*" and e.get("c"):
            e = strip(e["c"][0])
        elif k == "Idx" and e.get("c"):
            e = strip(e["c"][0])
        elif k == "This":
            return True
        elif k == "Ref":
            return e.get("n") in refparams or (e.get("n"), e.get("dl")) in others
        else:
            return False


def analyse(fn):
    """list of (decl line, name, type, init text, write lines) for modified-and-dropped copies"""
    if not fn.get("body"):
        return [], 0
    refparams = {p_["n"] for p_ in fn["params"] if p_.get("n") and ("&" in (p_.get("t") or "") or "*" in (p_.get("t") or "")) and not (p_.get("t") or "").startswith("const ")}
    refparams |= {p_["n"] for p_ in fn["params"] if p_.get("n") and "&" in (p_.get("t") or "")}
    cands = {}
    reflocals = set()
    for n in walk(fn["body"]):
        if n.get("k") != "Decl":
            continue
        for v in n["vars"]:
            t = (v.get("t") or "")
            if not isinstance(v.get("init"), dict):
                continue
            if "&" in t:
                if _root_outlives(v["init"], refparams, reflocals):
                    reflocals.add((v["n"], v.get("l")))
                continue
            tt = t.replace("const ", "").strip()
            if t.startswith("const ") or "*" in t or tt in SKIP_T or any(s_ in tt for s_ in ("iterator", "iter_type", "basic_string", "string_view", "optional<double>", "pair<", "tuple<", "vector<", "map<", "set<", "std::", "fs::path", "filesystem", "Deck", "stream")):
                continue
            init = strip(v["init"])
            if init.get("k") in ("Int", "Flt", "Str", "Bool"):
                continue
            if _root_outlives(v["init"], refparams, reflocals):
                cands[(v["n"], v.get("l"))] = (v, show(v["init"])[:100])
    if not cands:
        return [], 0
    use = {k: dict(w=[], r=[]) for k in cands}

    def is_c(e):
        e = strip(e)
        while e.get("k") == "OpCall" and e.get("op") in ("->", "*") and e.get("a"):
            e = strip(e["a"][0])
        while e.get("k") == "Un" and e.get("op") == "*" and e.get("c"):
            e = strip(e["c"][0])
        if e.get("k") == "Ref" and (e.get("n"), e.get("dl")) in use:
            return (e["n"], e["dl"])
        return None

    def rec(n, parent_reads):
        k = n.get("k")
        if k == "Ref":
            key = (n.get("n"), n.get("dl"))
            if key in use:
                use[key]["r"].append(n.get("l"))
            return
        if k == "MCall" and isinstance(n.get("obj"), dict):
            c = is_c(n["obj"])
            if c is not None:
                if n.get("const"):
                    use[c]["r"].append(n.get("l"))
                else:
                    use[c]["w"].append(n.get("l"))
                for a in n.get("a") or []:
                    rec(a, True)
                return
        if k == "Bin" and n.get("asg") and len(n.get("c") or []) == 2:
            lhs = strip(n["c"][0])
            base = lhs
            while base.get("k") in ("Mem", "Idx") and (base.get("b") or base.get("c")):
                base = strip(base["b"] if base["k"] == "Mem" else base["c"][0])
            c = is_c(base) if base is not lhs else None
            if c is not None:
                use[c]["w"].append(n.get("l"))
                rec(n["c"][1], True)
                return
        if k == "OpCall" and n.get("op") in ("=", "+=", "-=") and len(n.get("a") or []) == 2:
            lhs = strip(n["a"][0])
            base = lhs
            while base.get("k") in ("Mem", "Idx") and (base.get("b") or base.get("c")):
                base = strip(base["b"] if base["k"] == "Mem" else base["c"][0])
            c = is_c(base) if base is not lhs else None
            if c is not None:
                use[c]["w"].append(n.get("l"))
                rec(n["a"][1], True)
                return
        for ch in children(n):
            rec(ch, True)
    rec(fn["body"], True)
    out = []
    for key, (v, init) in cands.items():
        u = use[key]
        if u["w"] and not u["r"]:
            out.append((v.get("l"), v["n"], v.get("t"), init, sorted(set(u["w"]))))
    return out, len(cands)
