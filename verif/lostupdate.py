"""Lost updates: a local COPY of longer-lived state that is modified and then dropped.

The schedule code changes state by copy - modify - install:   auto x = state.thing();  x.change(...);  state.thing.update(x);
If the last step is missing the keyword (or the restart record) is silently ignored.  For every local variable that

  * is an object (not a reference, pointer, iterator, arithmetic or string value) initialised from an expression rooted in
    storage that outlives the function (a member of *this, of a reference parameter or of another such local, a call on one
    of these, or make_shared / a copy constructor of one), and
  * is written at least once (a non-const member function is called on it, directly or through ->, or one of its members
    is assigned),

some use at or after the first write must CONSUME it: it is passed by value / const reference / rvalue (also inside std::move),
returned, copied, compared, captured.  Calling a const member only inspects the copy; handing it to a mutable reference
parameter modifies it.  A variable with writes and no consumption at or after the first write is reported."""
from verif.tree import walk, strip, show, children

SKIP_T = ("int", "double", "float", "bool", "size_t", "std::size_t", "unsigned", "long", "char", "std::string", "string", "time_point", "iterator", "std::time_t")


def _root_outlives(e, refparams, others):
    e = strip(e)
    seen = 0
    while True:
        seen += 1
        if seen > 12:
            return False
        k = e.get("k")
        if k in ("Ctor", "Temp", "Bind", "Cast", "?ParenListExpr", "InitList"):
            kids = [c for c in (e.get("a") or e.get("c") or []) if c.get("k") != "DefArg"]
            if len(kids) != 1:
                return False
            e = strip(kids[0])
        elif k == "Call" and ((e.get("fn") or "").startswith("std::make_shared") or (e.get("fn") or "").startswith("std::make_unique")):
            kids = [c for c in (e.get("a") or []) if c.get("k") != "DefArg"]
            if len(kids) != 1:
                return False
            e = strip(kids[0])
        elif k == "MCall" and isinstance(e.get("obj"), dict):
            e = strip(e["obj"])
        elif k == "OpCall" and e.get("op") in ("->", "*", "()", "[]") and e.get("a"):
            e = strip(e["a"][0])
        elif k in ("Mem", "DMem") and isinstance(e.get("b"), dict):
            e = strip(e["b"])
        elif k == "Un" and e.get("op") == "*" and e.get("c"):
            e = strip(e["c"][0])
        elif k == "Idx" and e.get("c"):
            e = strip(e["c"][0])
        elif k == "This":
            return True
        elif k == "Ref":
            return e.get("n") in refparams or (e.get("n"), e.get("dl")) in others
        else:
            return False


_MUT_CACHE = {}


def _only_mutates(qname, pidx, lookup, pts=None):
    """True if every definition of `qname` found uses its pidx-th parameter only as the receiver of member calls / member
    assignments (it changes the object and does not keep or copy it).  Unknown callee: False (it may install the object)."""
    if lookup is None or not qname:
        return False
    key = (qname, pidx, tuple(pts or ()))
    if key in _MUT_CACHE:
        return _MUT_CACHE[key]
    res = False
    defs = [f for f in lookup(qname) if f.get("body") and pidx < len(f.get("params") or [])]
    if pts:
        same = [f for f in defs if [p_.get("t") for p_ in f["params"]] == list(pts)]
        defs = same or [f for f in defs if len(f["params"]) == len(pts)]
    if defs:
        res = True
        for f in defs:
            pn = f["params"][pidx].get("n")
            if not pn:
                res = False
                break

            def rec(n):
                nonlocal res
                if n.get("k") == "Ref" and n.get("n") == pn and n.get("d") == "Parm":
                    res = False          # used as a value somewhere: copied, stored, passed on
                    return
                if n.get("k") == "MCall" and isinstance(n.get("obj"), dict) and strip(n["obj"]).get("k") == "Ref" and strip(n["obj"]).get("n") == pn:
                    for a in n.get("a") or []:
                        rec(a)
                    return
                if n.get("k") == "Bin" and n.get("asg"):
                    base = strip(n["c"][0])
                    while base.get("k") in ("Mem", "Idx") and (base.get("b") or base.get("c")):
                        base = strip(base["b"] if base["k"] == "Mem" else base["c"][0])
                    if base.get("k") == "Ref" and base.get("n") == pn and strip(n["c"][0]).get("k") != "Ref":
                        rec(n["c"][1])
                        return
                for ch in children(n):
                    rec(ch)
            rec(f["body"])
            if not res:
                break
    _MUT_CACHE[key] = res
    return res


def analyse(fn, lookup=None):
    """list of (decl line, name, type, init text, write lines) for modified-and-dropped copies"""
    if not fn.get("body"):
        return [], 0
    refparams = {p_["n"] for p_ in fn["params"] if p_.get("n") and ("&" in (p_.get("t") or "") or "*" in (p_.get("t") or "")) and not (p_.get("t") or "").startswith("const ")}
    refparams |= {p_["n"] for p_ in fn["params"] if p_.get("n") and "&" in (p_.get("t") or "")}
    cands = {}
    reflocals = set()
    for n in walk(fn["body"]):
        if n.get("k") != "Decl":
            continue
        for v in n["vars"]:
            t = (v.get("t") or "")
            if not isinstance(v.get("init"), dict):
                continue
            if "&" in t:
                if _root_outlives(v["init"], refparams, reflocals):
                    reflocals.add((v["n"], v.get("l")))
                continue
            tt = t.replace("const ", "").strip()
            if t.startswith("const ") or "*" in t or tt in SKIP_T or any(s_ in tt for s_ in ("iterator", "iter_type", "basic_string", "string_view", "optional<double>", "pair<", "tuple<", "vector<", "map<", "set<", "std::", "fs::path", "filesystem", "Deck", "stream")):
                continue
            init = strip(v["init"])
            if init.get("k") in ("Int", "Flt", "Str", "Bool"):
                continue
            if _root_outlives(v["init"], refparams, reflocals):
                cands[(v["n"], v.get("l"))] = (v, show(v["init"])[:100])
    if not cands:
        return [], 0
    use = {k: dict(w=[], r=[]) for k in cands}

    def is_c(e):
        e = strip(e)
        while e.get("k") == "OpCall" and e.get("op") in ("->", "*") and e.get("a"):
            e = strip(e["a"][0])
        while e.get("k") == "Un" and e.get("op") == "*" and e.get("c"):
            e = strip(e["c"][0])
        if e.get("k") == "Ref" and (e.get("n"), e.get("dl")) in use:
            return (e["n"], e["dl"])
        return None

    def rec(n):
        k = n.get("k")
        if k == "Ref":
            key = (n.get("n"), n.get("dl"))
            if key in use:
                use[key]["r"].append(n.get("l") or 0)
            return
        if k == "MCall" and isinstance(n.get("obj"), dict):
            c = is_c(n["obj"])
            if c is not None:
                if not n.get("const"):
                    use[c]["w"].append(n.get("l") or 0)
                # a const member call only inspects the copy: neither a write nor a consumption
                for a in n.get("a") or []:
                    rec(a)
                return
        if k in ("Call", "MCall", "Ctor") and n.get("a"):
            pts = n.get("pt") or []
            for i, a in enumerate(n["a"]):
                c = is_c(a)
                t = pts[i] if i < len(pts) else ""
                repo_callee = (n.get("fn") or "").startswith(("Opm::", "(anonymous namespace)::")) and "<" not in (n.get("fn") or "").split("(")[0].split("::")[-1]
                if c is not None and repo_callee and t.rstrip().endswith("&") and "&&" not in t and not t.lstrip().startswith("const ") and _only_mutates(n.get("fn"), i, lookup, pts):
                    use[c]["w"].append(n.get("l") or 0)     # handed to a mutable reference parameter: modified there
                else:
                    rec(a)
            for key_ in ("obj", "callee"):
                if isinstance(n.get(key_), dict):
                    rec(n[key_])
            return
        if k == "Bin" and n.get("asg") and len(n.get("c") or []) == 2:
            lhs = strip(n["c"][0])
            base = lhs
            while base.get("k") in ("Mem", "Idx") and (base.get("b") or base.get("c")):
                base = strip(base["b"] if base["k"] == "Mem" else base["c"][0])
            c = is_c(base) if base is not lhs else None
            if c is not None:
                use[c]["w"].append(n.get("l") or 0)
                rec(n["c"][1])
                return
        if k == "OpCall" and n.get("op") in ("=", "+=", "-=") and len(n.get("a") or []) == 2:
            lhs = strip(n["a"][0])
            base = lhs
            while base.get("k") in ("Mem", "Idx") and (base.get("b") or base.get("c")):
                base = strip(base["b"] if base["k"] == "Mem" else base["c"][0])
            c = is_c(base) if base is not lhs else None
            if c is not None:
                use[c]["w"].append(n.get("l") or 0)
                rec(n["a"][1])
                return
        for ch in children(n):
            rec(ch)
    rec(fn["body"])
    out = []
    for key, (v, init) in cands.items():
        u = use[key]
        if u["w"] and not [l for l in u["r"] if l >= min(u["w"])]:
            out.append((v.get("l"), v["n"], v.get("t"), init, sorted(set(u["w"]))))
    return out, len(cands)
