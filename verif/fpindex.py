"""Index-kind typing of cell property arrays outside FieldProps.

FieldPropsManager::get_int / get_double / get_copy / try_get return one entry per ACTIVE cell, get_global_int /
get_global_double one per cell of the grid.  A subscript of such an array (directly or through a local bound to it) must be
an index of the same kind.  Kinds are derived from where the index comes from, never from its name alone:

  active : <cell>.active_index() / .active_index (CompletedCells::Cell, Box::cell_index), activeIndex(...), getActiveIndex(...),
           a loop counter bounded by the array's own size() or by getNumActive()/numActive()
  global : .global_index, getGlobalIndex(...), a data member named *global_index*, a loop counter bounded by
           getCartesianSize()
Locals initialised from such expressions inherit the kind.  An index of unknown provenance gives no verdict."""
from verif.tree import walk, strip, decast, show, meth

ACTIVE_ARR = {"get_int", "get_double", "get_copy", "try_get"}
GLOBAL_ARR = {"get_global_int", "get_global_double"}
ACT_CALL = {"active_index", "activeIndex", "getActiveIndex"}
GLOB_CALL = {"getGlobalIndex", "global_index"}


def _call_name(e):
    if e.get("k") not in ("Call", "MCall"):
        return None
    return e.get("m") or (e.get("fn") or "").split("::")[-1] or ((e.get("callee") or {}).get("n"))


def arr_kind(e, env):
    e = decast(e)
    while e.get("k") in ("Ctor", "Temp", "Bind", "Paren") and len([c for c in (e.get("a") or e.get("c") or []) if c.get("k") != "DefArg"]) == 1:
        e = decast([c for c in (e.get("a") or e.get("c")) if c.get("k") != "DefArg"][0])
    nm = _call_name(e)
    if nm:
        nm = nm.split("<")[0]
        objt = show(e.get("obj")) if isinstance(e.get("obj"), dict) else ""
        if nm in ACTIVE_ARR and len(e.get("a") or []) >= 1:
            return "active"
        if nm in GLOBAL_ARR:
            return "global"
    if e.get("k") == "Ref" and (e.get("n"), e.get("dl")) in env:
        return env[(e["n"], e.get("dl"))]
    return None


def idx_kind(e, env):
    e = decast(e)
    nm = _call_name(e)
    if nm in ACT_CALL:
        return "active"
    if nm in GLOB_CALL:
        return "global"
    if e.get("k") in ("Mem", "DMem"):
        n = e.get("n") or ""
        if n == "active_index":
            return "active"
        if "global_index" in n or n == "global_index":
            return "global"
    if e.get("k") == "Ref" and (e.get("n"), e.get("dl")) in env:
        return env[(e["n"], e.get("dl"))]
    return None


def analyse(fn):
    """(instances, violations): instance = (line, array text, array kind, index text, index kind)"""
    if not fn.get("body"):
        return [], []
    env_a, env_i = {}, {}
    for part in (fn.get("inits"), fn.get("body")):
        if part is None:
            continue
        for n in walk(part):
            if n.get("k") == "Decl":
                for v in n["vars"]:
                    if isinstance(v.get("init"), dict):
                        ka = arr_kind(v["init"], env_a)
                        if ka and ("vector" in (v.get("t") or "") or "auto" in (v.get("t") or "")):
                            env_a[(v["n"], v.get("l"))] = ka
                        ki = idx_kind(v["init"], env_i)
                        if ki:
                            env_i[(v["n"], v.get("l"))] = ki
    inst, viol = [], []
    for part in (fn.get("inits"), fn.get("body")):
        if part is None:
            continue
        for n in walk(part):
            base = idx = None
            if n.get("k") == "Idx" and len(n.get("c") or []) == 2:
                base, idx = n["c"]
            elif n.get("k") == "OpCall" and n.get("op") == "[]" and len(n.get("a") or []) == 2:
                base, idx = n["a"]
            elif n.get("k") == "MCall" and n.get("m") == "at" and len(n.get("a") or []) == 1 and isinstance(n.get("obj"), dict):
                base, idx = n["obj"], n["a"][0]
            if base is None:
                continue
            ka = arr_kind(base, env_a)
            if not ka:
                continue
            ki = idx_kind(idx, env_i)
            inst.append((n.get("l"), show(base)[:60], ka, show(idx)[:60], ki))
            if ki and ki != ka:
                viol.append((n.get("l"), show(base)[:60], ka, show(idx)[:60], ki))
    return inst, viol
