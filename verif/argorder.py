"""Crosswise arguments: a call f(.., a, .., b, ..) in which the variable passed in position i bears exactly the name of
the callee's parameter j, and the variable in position j exactly the name of parameter i (i != j).  Callees are resolved
by qualified name and parameter types; a callee whose overloads disagree on parameter names is skipped.

On the pinned tree 2 of 4472 resolvable calls with two or more arguments are crosswise; both were read and are listed
in EXCEPTIONS with their reason.  Everything else is reported."""
import collections

from verif.tree import decast, walk

EXCEPTIONS = {
    ("Opm::NNC::addNNC", "Opm::NNC::addNNC"): "deliberate: the pair is normalised to cell1 <= cell2 by calling itself with the cells exchanged",
    ("Opm::DeckItem::equal", "Opm::(anonymous namespace)::double_equal"): "rel_eps and abs_eps are both the constant 1e-4 at this call (read): the exchange has no effect",
}


def table(fx):
    tab = collections.defaultdict(list)
    for f in fx.fns:
        ps = f.get("params") or []
        tab[f["q"]].append(([p.get("t") for p in ps], [p.get("n0") or p.get("n") for p in ps]))
    return tab


def _pnames(tab, fn, pt, nargs):
    c = [x for x in tab.get(fn) or [] if len(x[1]) >= nargs]
    if pt:
        c2 = [x for x in c if list(x[0])[:len(pt)] == list(pt)]
        if c2:
            c = c2
    names = {tuple(x[1]) for x in c}
    return list(names)[0] if len(names) == 1 else None


def analyse(fn, tab):
    """-> (number of resolvable calls, [(line, callee, arg names, param names, i, j)])"""
    n = 0
    out = []
    for c in walk(fn["body"]):
        if c.get("k") not in ("Call", "MCall", "Ctor") or not c.get("fn") or len(c.get("a") or []) < 2:
            continue
        pn = _pnames(tab, c["fn"], c.get("pt"), len(c["a"]))
        if not pn:
            continue
        an = []
        for a in c["a"]:
            a = decast(a)
            if a.get("k") == "Ref" and a.get("d") in ("Var", "Parm"):
                an.append(a.get("n0") or a.get("n"))       # the name as written (before alpha-normalisation)
            elif a.get("k") == "Mem":
                an.append(a.get("n"))
            else:
                an.append(None)
        n += 1
        for i in range(len(an)):
            for j in range(i + 1, len(an)):
                if an[i] and an[j] and j < len(pn) and an[i] == pn[j] and an[j] == pn[i] and an[i] != an[j]:
                    out.append((c.get("l"), c["fn"], an, list(pn), i, j))
    return n, out


def run(chk, prefix, floor):
    from verif import core
    from verif.fallthrough import anchor_units
    r = chk.rule(prefix + ".argorder", "in the files this property is anchored in, no call passes two variables crosswise to the parameters that bear their names (f(b, a) for f(a, b)): the callee is resolved by qualified name and parameter types, names are compared exactly; the two crosswise calls of the pinned tree were read and are listed with their reason in verif/argorder.py", floor=floor)
    units = anchor_units(prefix)
    fx = chk.facts(units)
    tab = table(fx)
    afiles = {u if u.startswith("/") else core.REPO + "/" + u for u in units}
    for f in fx.fns:
        if not f.get("body") or f["file"] not in afiles:
            continue
        n, hits = analyse(f, tab)
        if n:
            chk.instance(r, "%s@%d" % (f["q"], f["l"]), sample=dict(function=f["q"], calls=n, crosswise=len(hits)))
        for line, callee, an, pn, i, j in hits:
            if (f["q"], callee) in EXCEPTIONS:
                continue
            chk.violation(r, "%s@%d" % (f["q"], f["l"]), "%s calls %s(%s) but its parameters are (%s): `%s` and `%s` are passed crosswise" % (f["q"], callee, ", ".join(x or "_" for x in an), ", ".join(x or "_" for x in pn), an[i], an[j]), f["file"], line)
